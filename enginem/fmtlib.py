"""core::fmt for Engine M (container mode): an interpreter of the compact `fmt::Arguments` template that rustc emits (library/core/src/fmt/
mod.rs: literal pieces prefixed by their length, placeholders 0b11______ with optional flags/width/precision/arg index, 0 terminator),
decimal rendering of integers (symbolic values fork on the number of digits; the digits are bit-vector terms), padding per
`Formatter::pad_integral`, and the `Formatter` / `io::Write::write_fmt` / `ToString` entry points.  Display impls of types from the
dumped crates are executed from their MIR with a Formatter object.  A case module opts in by adding `fmtlib.contracts` to
core.EXTRA_CONTRACTS."""
import re
from z3 import *
import core

d = core._d

SIGN_PLUS, ALTERNATE, ZERO_PAD, WIDTH_FLAG, PRECISION_FLAG = 1 << 21, 1 << 23, 1 << 24, 1 << 27, 1 << 28
ALIGN_SHIFT = 29


class FmtArg:
    def __init__(self, kind, ty, v): self.kind, self.ty, self.v = kind, ty, v


class Args:
    def __init__(self, tpl, args): self.tpl, self.args = tpl, args


class Formatter:
    def __init__(self, opts=None): self.buf, self.opts = [], dict(opts or {})


def default_opts():
    return {"flags": 0x20 | (3 << ALIGN_SHIFT), "width": 0, "precision": 0}


def parse_template(tpl):
    """-> list of ('lit', bytes) | ('arg', index, opts)"""
    out, i, nxt = [], 0, 0
    while True:
        n = tpl[i]; i += 1
        if n == 0: return out
        if n < 0x80:
            out.append(("lit", list(tpl[i:i + n]))); i += n
        elif n == 0x80:
            ln = tpl[i] | (tpl[i + 1] << 8); i += 2
            out.append(("lit", list(tpl[i:i + ln]))); i += ln
        else:
            o = default_opts()
            if n & 1: o["flags"] = int.from_bytes(bytes(tpl[i:i + 4]), "little"); i += 4
            if n & 2: o["width"] = tpl[i] | (tpl[i + 1] << 8); i += 2
            if n & 4: o["precision"] = tpl[i] | (tpl[i + 1] << 8); i += 2
            if n & 8: nxt = tpl[i] | (tpl[i + 1] << 8); i += 2
            if n & 16: o["width_arg"] = o["width"]
            if n & 32: o["precision_arg"] = o["precision"]
            out.append(("arg", nxt, o)); nxt += 1


def base_type(ty):
    ty = ty.strip()
    while ty.startswith("&"):
        ty = re.sub(r"^&('\w+ )?(mut )?", "", ty).strip()
    return ty


def int_digits(v, bits, signed, ctx, minw=0, plus=False):
    """-> (negative: bool, digits: list of byte terms) ; forks on sign and on the number of digits"""
    if isinstance(v, bool): v = int(v)
    if isinstance(v, int):
        return (v < 0, [ord(ch) for ch in str(abs(v))])
    v = simplify(v)
    if is_bv_value(v):
        x = v.as_signed_long() if signed else v.as_long()
        return (x < 0, [ord(ch) for ch in str(abs(x))])
    neg = False
    w = v.size()
    mag = ZeroExt(8, v)
    if signed:
        neg = ctx.branch(v < 0)
        mag = ZeroExt(8, v) if not neg else -SignExt(8, v)
    w += 8
    if minw and (neg or plus): minw -= 1          # the sign counts towards the width
    maxd = len(str((1 << bits) - 1))
    nd = maxd
    # with zero padding to `minw` digits every value below 10^minw renders with exactly minw digits: no fork on the digit count there
    for k in range(max(1, minw), maxd):
        if ctx.branch(ULT(mag, BitVecVal(10 ** k, w))):
            nd = k; break
    # digits are fresh variables tied to the value by  value == sum d_k * 10^k, d_k <= 9  (multiplications by constants instead of
    # divisions: the same unique solution, far cheaper for the SAT back end)
    n0 = getattr(ctx, "fresh_digits", 0)
    ctx.fresh_digits = n0 + 1
    ds = [BitVec("dig%d_%d" % (n0, k), 8) for k in range(nd)]
    total = BitVecVal(0, w)
    for k in range(nd):
        ctx.pc.append(ULE(ds[k], 9))
        total = total + ZeroExt(w - 8, ds[k]) * BitVecVal(10 ** k, w)
    ctx.pc.append(total == mag)
    digs = [ds[k] + 48 for k in range(nd - 1, -1, -1)]
    return (neg, digs)


def pad(body, sign, opts, default_right):
    """Formatter::pad_integral / pad: body and sign are byte lists"""
    flags = opts["flags"]
    width = opts["width"] if flags & WIDTH_FLAG else 0
    fill = flags & 0x1FFFFF
    n = len(body) + len(sign)
    if n >= width: return sign + body
    if flags & ZERO_PAD and default_right:
        return sign + [0x30] * (width - n) + body
    align = (flags >> ALIGN_SHIFT) & 3
    if align == 3: align = 1 if default_right else 0
    padn = width - n
    if align == 0: return sign + body + [fill] * padn
    if align == 1: return [fill] * padn + sign + body
    return [fill] * (padn // 2) + sign + body + [fill] * (padn - padn // 2)


DISPLAY_HOOKS = []      # case-supplied: (base type, value, formatter, ctx) -> True if handled


def display(arg, opts, ctx, out):
    """append the rendering of one argument to `out` (list of bytes)"""
    ty = base_type(arg.ty)
    v = d(arg.v)
    m = re.fullmatch(r"([iu])(8|16|32|64|128|size)", ty)
    if m and arg.kind == "display":
        bits = 64 if m.group(2) == "size" else int(m.group(2))
        zw = opts["width"] if (opts["flags"] & WIDTH_FLAG and opts["flags"] & ZERO_PAD) else 0
        neg, digs = int_digits(v, bits, m.group(1) == "i", ctx, zw, bool(opts["flags"] & SIGN_PLUS))
        sign = [0x2D] if neg else ([0x2B] if opts["flags"] & SIGN_PLUS else [])
        out.extend(pad(digs, sign, opts, True)); return
    if isinstance(v, core.Str) and arg.kind == "display":
        body = list(v.b)
        if opts["flags"] & PRECISION_FLAG: body = body[:opts["precision"]]
        out.extend(pad(body, [], opts, False)); return
    if ty == "char" and arg.kind == "display":
        cv = v if isinstance(v, int) else simplify(v)
        if not isinstance(cv, int) and is_bv_value(cv): cv = cv.as_long()
        if isinstance(cv, int) and cv >= 0x80: raise core.NotEncodable("non-ASCII char in format")
        if not isinstance(cv, int): cv = Extract(7, 0, cv) if cv.size() > 8 else cv
        out.extend(pad([cv], [], opts, False)); return
    f = Formatter(opts)
    for h in DISPLAY_HOOKS:
        if h(ty, arg, f, ctx):
            out.extend(f.buf); return
    # a type of the dumped crates: run its fmt from the MIR
    pick = find_fmt(ty, "Display" if arg.kind == "display" else "Debug")
    if pick:
        core.run_fn(pick, [core.Ref(core.Cell(v)), core.Ref(core.Cell(f))], ctx)
        out.extend(f.buf); return
    raise core.NotEncodable("no %s rendering for %s" % (arg.kind, ty))


def find_fmt(ty, trait):
    short = re.sub(r"<.*>$", "", base_type(ty)).split("::")[-1]
    cands = [n for n, fn in core.FNS.items() if n.endswith("::fmt") and "<impl at" in n and re.match(r"_1: &(?:\w+::)*%s(?![\w<])" % re.escape(short), re.sub(r"<'\w+>|'\w+ ", "", fn.ptext))]
    def body(n): return "\n".join(sum(core.FNS[n].blocks.values(), []))
    fwd = [n for n in cands if re.search(r"as (std::fmt::|core::fmt::)?Debug>::fmt\(", body(n))]          # Display written as a call of Debug
    derived = [n for n in cands if re.search(r"debug_(struct|tuple|list|map)", body(n))]
    if trait == "Display":
        if len(fwd) == 1: return fwd[0]
        rest = [n for n in cands if n not in derived]
        return rest[0] if len(rest) == 1 else None
    rest = [n for n in cands if n not in fwd]
    if len(rest) == 1: return rest[0]
    return derived[0] if len(derived) == 1 else None


def render(a, ctx):
    out = []
    if isinstance(a, core.Str): return list(a.b)
    for part in parse_template(a.tpl):
        if part[0] == "lit": out.extend(part[1]); continue
        _, idx, o = part
        if "width_arg" in o:
            wv = d(a.args[o["width_arg"]].v); wv = core.concrete_index(wv); o = dict(o, width=wv, flags=o["flags"] | WIDTH_FLAG)
        if "precision_arg" in o:
            pv = d(a.args[o["precision_arg"]].v); pv = core.concrete_index(pv); o = dict(o, precision=pv, flags=o["flags"] | PRECISION_FLAG)
        display(a.args[idx], o, ctx, out)
    return out


def tpl_bytes(v):
    v = d(v)
    if isinstance(v, (bytes, bytearray)): return list(v)
    if isinstance(v, core.Str): return list(v.b)
    if isinstance(v, core.Struct): return list(v.f)
    raise core.NotEncodable("format template %r" % (v,))


def contracts(c, args, ctx):
    m = re.match(r"core::fmt::rt::Argument::<'_>::new_(display|debug|lower_hex|upper_hex)::<(.*)>$", c)
    if m: return FmtArg(m.group(1), m.group(2), args[0])
    if re.match(r"core::fmt::rt::Argument::<'_>::from_usize$", c): return FmtArg("display", "usize", args[0])
    if re.match(r"Arguments::<'_>::new::<\d+, \d+>$", c):
        arr = d(args[1])
        return Args(tpl_bytes(args[0]), list(arr.f if isinstance(arr, core.Struct) else arr.items))
    if re.match(r"Arguments::<'_>::from_str(_nonconst)?$", c):
        return core.Str(list(d(args[0]).b))
    if c in ("std::fmt::format", "alloc::fmt::format"):
        return core.Str(render(args[0], ctx))
    if c.startswith("must_use::<"): return args[0]
    if re.match(r"Formatter::<'_>::write_fmt$", c) or re.match(r"<Formatter<'_> as (std::fmt::|core::fmt::)?Write>::write_fmt$", c):
        d(args[0]).buf.extend(render(args[1], ctx)); return core.Enum("Ok", [None])
    if re.match(r"Formatter::<'_>::write_str$", c) or re.match(r"<Formatter<'_> as (std::fmt::|core::fmt::)?Write>::write_str$", c):
        d(args[0]).buf.extend(list(d(args[1]).b)); return core.Enum("Ok", [None])
    if re.match(r"Formatter::<'_>::write_char$", c) or re.match(r"<Formatter<'_> as (std::fmt::|core::fmt::)?Write>::write_char$", c):
        d(args[0]).buf.append(args[1]); return core.Enum("Ok", [None])
    if re.match(r"Formatter::<'_>::pad$", c):
        f = d(args[0]); f.buf.extend(pad(list(d(args[1]).b), [], f.opts or default_opts(), False)); return core.Enum("Ok", [None])
    m = re.fullmatch(r"<(.+) as (?:std::fmt::|core::fmt::)?(Display|Debug)>::fmt", c)
    if m and isinstance(d(args[1]), Formatter):
        f = d(args[1])
        if m.group(2) == "Display" or re.fullmatch(r"[iu](8|16|32|64|128|size)", base_type(m.group(1))):
            display(FmtArg("display", m.group(1), args[0]), f.opts or default_opts(), ctx, f.buf)
            return core.Enum("Ok", [None])
        pick = find_fmt(m.group(1), "Debug")
        if pick: return core.run_fn(pick, [args[0], args[1]], ctx)
        return NotImplemented
    m = re.fullmatch(r"<(.+) as ToString>::to_string", c)
    if m:
        ty = m.group(1)
        if ty in ("T", "Self") and core.GENERICS and core.GENERICS[-1]: ty = core.GENERICS[-1][0]
        v = d(args[0])
        if ty in ("T", "Self"):
            if isinstance(v, core.Str): ty = "str"
            else: return NotImplemented
        out = []
        display(FmtArg("display", ty, args[0]), default_opts(), ctx, out)
        return core.Str(out)
    if re.fullmatch(r"<String as (std::fmt::|core::fmt::)?Write>::write_fmt", c):
        d(args[0]).b.extend(render(args[1], ctx)); return core.Enum("Ok", [None])
    if re.search(r"as (std::io::)?Write>::write_fmt$", c):
        tgt = d(args[0])
        if isinstance(tgt, core.Str):
            tgt.b.extend(render(args[1], ctx)); return core.Enum("Ok", [None])
    return NotImplemented
