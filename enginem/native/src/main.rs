//! Native oracle for Engine M: runs the REAL dicom-rs functions (normal build of /repo, the repository's own toolchain)
//! on inputs chosen by the solver.  Protocol: one command per stdin line (space separated), one answer line each.
use std::io::{BufRead, Write};

use dicom_core::dictionary::{DataDictionary, DataDictionaryEntry};
use dicom_core::value::person_name::PersonName;
use dicom_core::{PrimitiveValue, Tag};
use dicom_dictionary_std::StandardDataDictionary;

fn hex(b: &[u8]) -> String {
    b.iter().map(|x| format!("{:02x}", x)).collect()
}
fn unhex(s: &str) -> Vec<u8> {
    if s == "-" {
        return vec![];
    }
    (0..s.len() / 2).map(|i| u8::from_str_radix(&s[2 * i..2 * i + 2], 16).unwrap()).collect()
}

fn main() {
    let stdin = std::io::stdin();
    let out = std::io::stdout();
    let mut out = out.lock();
    for line in stdin.lock().lines() {
        let line = line.unwrap();
        let a: Vec<&str> = line.split_whitespace().collect();
        if a.is_empty() {
            continue;
        }
        let ans = std::panic::catch_unwind(|| answer(&a)).unwrap_or_else(|_| "PANIC".to_string());
        writeln!(out, "{}", ans).unwrap();
        out.flush().unwrap();
    }
}

fn answer(a: &[&str]) -> String {
    match a[0] {
        // by_tag GGGG EEEE  -> alias | NONE
        "by_tag" => {
            let g = u16::from_str_radix(a[1], 16).unwrap();
            let e = u16::from_str_radix(a[2], 16).unwrap();
            match StandardDataDictionary.by_tag(Tag(g, e)) {
                Some(en) => format!("{}", en.alias()),
                None => "NONE".into(),
            }
        }
        // by_name ALIAS -> alias tag-range-debug | NONE
        "by_name" => match StandardDataDictionary.by_name(a[1]) {
            Some(en) => format!("{} {:04X}{:04X}", en.alias(), en.tag().0, en.tag().1),
            None => "NONE".into(),
        },
        // pn  <5 x (hex|-|~)>   '~' = absent component; order prefix family middle given suffix
        "pn" => {
            let mut b = PersonName::builder();
            let comp: Vec<Option<String>> = a[1..6]
                .iter()
                .map(|s| if *s == "~" { None } else { Some(String::from_utf8(unhex(s)).unwrap()) })
                .collect();
            if let Some(s) = &comp[0] { b.with_prefix(s.as_str()); }
            if let Some(s) = &comp[1] { b.with_family(s.as_str()); }
            if let Some(s) = &comp[2] { b.with_middle(s.as_str()); }
            if let Some(s) = &comp[3] { b.with_given(s.as_str()); }
            if let Some(s) = &comp[4] { b.with_suffix(s.as_str()); }
            let pn = b.build();
            let text = pn.to_dicom_string();
            let back = PersonName::from_text(&text);
            let f = |o: Option<&str>| match o { None => "~".to_string(), Some(s) if s.is_empty() => "-".to_string(), Some(s) => hex(s.as_bytes()) };
            format!("{} {} {} {} {} {}", if text.is_empty() { "-".to_string() } else { hex(text.as_bytes()) },
                f(back.prefix()), f(back.family()), f(back.middle()), f(back.given()), f(back.suffix()))
        }
        // ae <title-hex|~> <addr-hex>  -> printed-hex  parsed-title parsed-addr | ERR
        "ae" => {
            use dicom_ul::address::{AeAddr, FullAeAddr};
            let addr = String::from_utf8(unhex(a[2])).unwrap();
            if a[1] == "~" {
                let x: AeAddr<String> = AeAddr::new_socket_addr(addr);
                let text = x.to_string();
                match text.parse::<AeAddr<String>>() {
                    Ok(y) => format!("{} {} {}", hex(text.as_bytes()), y.ae_title().map(|t| hex(t.as_bytes())).unwrap_or("~".into()), hex(y.socket_addr().as_bytes())),
                    Err(_) => format!("{} ERR", hex(text.as_bytes())),
                }
            } else {
                let title = String::from_utf8(unhex(a[1])).unwrap();
                let x: FullAeAddr<String> = FullAeAddr::new(title, addr);
                let text = x.to_string();
                match text.parse::<FullAeAddr<String>>() {
                    Ok(y) => format!("{} {} {}", hex(text.as_bytes()), hex(y.ae_title().as_bytes()), hex(y.socket_addr().as_bytes())),
                    Err(_) => format!("{} ERR", hex(text.as_bytes())),
                }
            }
        }
        // multi_int <variant> <target> v0 v1 ...   -> OK r0 r1 ... | ERR
        "multi_int" => {
            let vals: Vec<i128> = a[3..].iter().map(|s| s.parse::<i128>().unwrap()).collect();
            let pv = match a[1] {
                "U8" => PrimitiveValue::U8(vals.iter().map(|v| *v as u8).collect()),
                "U16" => PrimitiveValue::U16(vals.iter().map(|v| *v as u16).collect()),
                "I16" => PrimitiveValue::I16(vals.iter().map(|v| *v as i16).collect()),
                "U32" => PrimitiveValue::U32(vals.iter().map(|v| *v as u32).collect()),
                "I32" => PrimitiveValue::I32(vals.iter().map(|v| *v as i32).collect()),
                "U64" => PrimitiveValue::U64(vals.iter().map(|v| *v as u64).collect()),
                "I64" => PrimitiveValue::I64(vals.iter().map(|v| *v as i64).collect()),
                _ => return "BADCMD".into(),
            };
            fn show<T: std::fmt::Display, E>(r: Result<Vec<T>, E>) -> String {
                match r {
                    Ok(v) => format!("OK {}", v.iter().map(|x| x.to_string()).collect::<Vec<_>>().join(" ")).trim_end().to_string(),
                    Err(_) => "ERR".into(),
                }
            }
            match a[2] {
                "u8" => show(pv.to_multi_int::<u8>()),
                "u16" => show(pv.to_multi_int::<u16>()),
                "i16" => show(pv.to_multi_int::<i16>()),
                "u32" => show(pv.to_multi_int::<u32>()),
                "i32" => show(pv.to_multi_int::<i32>()),
                "u64" => show(pv.to_multi_int::<u64>()),
                "i64" => show(pv.to_multi_int::<i64>()),
                _ => "BADCMD".into(),
            }
        }
        // json_at GGGG EEEE -> the JSON text of an AT element with that value
        "json_elem" => {
            use dicom_core::{DataElement, VR};
            use dicom_object::InMemDicomObject;
            let vr: VR = a[1].parse().unwrap();
            let value: PrimitiveValue = match a[1] {
                "AT" => PrimitiveValue::Tags(a[2..].chunks(2).map(|c| Tag(u16::from_str_radix(c[0], 16).unwrap(), u16::from_str_radix(c[1], 16).unwrap())).collect()),
                "US" => PrimitiveValue::U16(a[2..].iter().map(|s| s.parse().unwrap()).collect()),
                "SS" => PrimitiveValue::I16(a[2..].iter().map(|s| s.parse().unwrap()).collect()),
                "UL" => PrimitiveValue::U32(a[2..].iter().map(|s| s.parse().unwrap()).collect()),
                "SL" => PrimitiveValue::I32(a[2..].iter().map(|s| s.parse().unwrap()).collect()),
                "OB" | "UN" => PrimitiveValue::U8(a[2..].iter().map(|s| s.parse().unwrap()).collect()),
                "OW" => PrimitiveValue::U16(a[2..].iter().map(|s| s.parse().unwrap()).collect()),
                _ => PrimitiveValue::Strs(a[2..].iter().map(|s| String::from_utf8(unhex(s)).unwrap()).collect()),
            };
            let e: DataElement<InMemDicomObject> = DataElement::new(Tag(0x0009, 0x1001), vr, value);
            serde_json::to_string(&dicom_json::DicomJson::from(&e)).unwrap_or_else(|_| "ERR".into())
        }
        "json_elem_empty" => {
            use dicom_core::{DataElement, VR};
            use dicom_object::InMemDicomObject;
            let vr: VR = a[1].parse().unwrap();
            let e: DataElement<InMemDicomObject> = DataElement::new(Tag(0x0009, 0x1001), vr, PrimitiveValue::Empty);
            serde_json::to_string(&dicom_json::DicomJson::from(&e)).unwrap_or_else(|_| "ERR".into())
        }
        // frag_new <len> <fragment_size> -> "<fragments> <total bytes>"
        "frag_new" => {
            use dicom_core::value::fragments::Fragments;
            let l: usize = a[1].parse().unwrap();
            let fs: u32 = a[2].parse().unwrap();
            let f = Fragments::new(vec![7u8; l], fs);
            let seq: dicom_core::value::PixelFragmentSequence<Vec<u8>> = vec![f].into();
            format!("{} {}", seq.fragments().len(), seq.fragments().iter().map(|x| x.len()).sum::<usize>())
        }
        // assoc_ids <n> -> "IDS id0 id1 ..." : presentation context ids in the A-ASSOCIATE-RQ that a requestor with n proposed
        // contexts really sends (captured by a listening socket on the loopback interface), or "REFUSED <error>"
        "assoc_ids" => {
            use dicom_ul::association::client::ClientAssociationOptions;
            use dicom_ul::pdu::{read_pdu, write_pdu, Pdu, AssociationRJ, AssociationRJResult, AssociationRJServiceUserReason, AssociationRJSource};
            use std::io::Read;
            let n: usize = a[1].parse().unwrap();
            let listener = std::net::TcpListener::bind("127.0.0.1:0").unwrap();
            let addr = listener.local_addr().unwrap();
            let server = std::thread::spawn(move || -> String {
                listener.set_nonblocking(false).unwrap();
                let (mut sock, _) = match listener.accept() { Ok(x) => x, Err(e) => return format!("NOACCEPT {}", e) };
                sock.set_read_timeout(Some(std::time::Duration::from_secs(5))).ok();
                let mut buf: Vec<u8> = Vec::new();
                let mut chunk = [0u8; 4096];
                loop {
                    let mut cur = &buf[..];
                    if let Ok(Some(pdu)) = read_pdu(&mut cur, 16_378, false) {
                        let out = match pdu {
                            Pdu::AssociationRQ(rq) => format!("IDS {}", rq.presentation_contexts.iter().map(|p| p.id.to_string()).collect::<Vec<_>>().join(" ")),
                            other => format!("OTHER {}", other.short_description()),
                        };
                        let _ = write_pdu(&mut sock, &Pdu::AssociationRJ(AssociationRJ { result: AssociationRJResult::Permanent,
                            source: AssociationRJSource::ServiceUser(AssociationRJServiceUserReason::NoReasonGiven) }));
                        return out;
                    }
                    match sock.read(&mut chunk) { Ok(0) => return "CLOSED".into(), Ok(k) => buf.extend_from_slice(&chunk[..k]), Err(e) => return format!("READERR {}", e) }
                }
            });
            let mut opts = ClientAssociationOptions::new();
            for k in 0..n {
                opts = opts.with_presentation_context(format!("1.2.3.{}", k), vec!["1.2.840.10008.1.2".to_string()]);
            }
            let res = opts.connection_timeout(std::time::Duration::from_secs(5)).establish(addr);
            let client = match res { Ok(_) => "ESTABLISHED".to_string(), Err(e) => format!("{}", e).replace(' ', "_") };
            if client.to_lowercase().contains("abstract") || client.to_lowercase().contains("too_many") {
                // the requestor refused locally: unblock the listener
                let _ = std::net::TcpStream::connect(addr);
                let _ = server.join();
                return format!("REFUSED {}", client);
            }
            match server.join() { Ok(s) if s.starts_with("IDS") => s, Ok(s) => format!("REFUSED {} / {}", client, s), Err(_) => "PANIC".into() }
        }
        // encode_pdu <peer_max> <payload length per PDV>... -> "OK" | "REJECTED <error>" : a requestor associated (loopback) with an acceptor
        // whose maximum PDU length is peer_max - 6 sends one P-DATA-TF holding those PDVs
        "encode_pdu" => {
            use dicom_ul::association::client::ClientAssociationOptions;
            use dicom_ul::association::server::ServerAssociationOptions;
            use dicom_ul::pdu::{PDataValue, PDataValueType, Pdu};
            let mx: u32 = a[1].parse().unwrap();
            if mx < 7 { return "UNSUPPORTED peer_max_below_7".into(); }
            let lens: Vec<usize> = a[2..].iter().map(|x| x.parse().unwrap()).collect();
            let listener = std::net::TcpListener::bind("127.0.0.1:0").unwrap();
            let addr = listener.local_addr().unwrap();
            let server = std::thread::spawn(move || -> String {
                let (sock, _) = match listener.accept() { Ok(x) => x, Err(e) => return format!("NOACCEPT {}", e) };
                let opts = ServerAssociationOptions::new().accept_any().with_abstract_syntax("1.2.840.10008.1.1").max_pdu_length(mx - 6).strict(false);
                match opts.establish(sock) {
                    Ok(mut assoc) => { let _ = assoc.receive(); "SERVED".into() }
                    Err(e) => format!("SERVERERR {}", e).replace(' ', "_"),
                }
            });
            let res = ClientAssociationOptions::new().with_abstract_syntax("1.2.840.10008.1.1").connection_timeout(std::time::Duration::from_secs(5)).establish(addr);
            let mut assoc = match res { Ok(x) => x, Err(e) => { let sv = server.join().unwrap_or_default(); return format!("NOASSOC {} / {}", e, sv).replace(' ', "_") } };
            let id = assoc.presentation_contexts()[0].id;
            let data: Vec<PDataValue> = lens.iter().enumerate().map(|(k, n)| PDataValue {
                presentation_context_id: id, value_type: if k % 2 == 0 { PDataValueType::Command } else { PDataValueType::Data }, is_last: k + 1 == lens.len(), data: vec![0x5A; *n] }).collect();
            let out = match assoc.send(&Pdu::PData { data }) { Ok(()) => "OK".to_string(), Err(e) => format!("REJECTED {}", e).replace(' ', "_") };
            let _ = assoc.abort();
            let _ = server.join();
            out
        }
        // negotiate <promiscuous 0|1> <abstract syntaxes,|-> <transfer syntaxes,|-> <proposed abstract syntax hex> <proposed transfer syntaxes hex,|->
        //   -> "RESULT <reason number> <accepted transfer syntax hex>" from the A-ASSOCIATE-AC a real acceptor sends over loopback | "RJ" | other
        "negotiate" => {
            use dicom_ul::association::server::ServerAssociationOptions;
            use dicom_ul::pdu::{read_pdu, write_pdu, AssociationRQ, Pdu, PresentationContextProposed, UserVariableItem};
            use std::io::Read;
            let promiscuous = a[1] == "1";
            let cfg_as: Vec<String> = if a[2] == "-" { vec![] } else { a[2].split(',').map(|x| x.to_string()).collect() };
            let cfg_ts: Vec<String> = if a[3] == "-" { vec![] } else { a[3].split(',').map(|x| x.to_string()).collect() };
            let abstract_syntax = String::from_utf8(unhex(a[4])).unwrap();
            let transfer_syntaxes: Vec<String> = if a[5] == "-" { vec![] } else { a[5].split(',').map(|x| String::from_utf8(unhex(x)).unwrap()).collect() };
            let listener = std::net::TcpListener::bind("127.0.0.1:0").unwrap();
            let addr = listener.local_addr().unwrap();
            let server = std::thread::spawn(move || -> String {
                let (sock, _) = match listener.accept() { Ok(x) => x, Err(e) => return format!("NOACCEPT {}", e) };
                let mut opts = ServerAssociationOptions::new().accept_any().promiscuous(promiscuous);
                for x in &cfg_as { opts = opts.with_abstract_syntax(x.clone()); }
                for x in &cfg_ts { opts = opts.with_transfer_syntax(x.clone()); }
                match opts.establish(sock) { Ok(mut assoc) => { let _ = assoc.receive(); "SERVED".into() } Err(e) => format!("SERVERERR {}", e).replace(' ', "_") }
            });
            let mut sock = std::net::TcpStream::connect(addr).unwrap();
            sock.set_read_timeout(Some(std::time::Duration::from_secs(5))).ok();
            let rq = Pdu::AssociationRQ(AssociationRQ {
                protocol_version: 1, calling_ae_title: "SCU".into(), called_ae_title: "THIS-SCP".into(), application_context_name: "1.2.840.10008.3.1.1.1".into(),
                presentation_contexts: vec![PresentationContextProposed { id: 7, abstract_syntax, transfer_syntaxes }],
                user_variables: vec![UserVariableItem::MaxLength(16384), UserVariableItem::ImplementationClassUID("1.2.3.4".into())],
            });
            if write_pdu(&mut sock, &rq).is_err() { return "WRITEERR".into(); }
            let mut buf: Vec<u8> = Vec::new();
            let mut chunk = [0u8; 4096];
            let out = loop {
                let mut cur = &buf[..];
                match read_pdu(&mut cur, 16_384, false) {
                    Ok(Some(Pdu::AssociationAC(ac))) => {
                        let pc = &ac.presentation_contexts[0];
                        break format!("RESULT {} {} id={}", pc.reason.clone() as u8, hex(pc.transfer_syntax.as_bytes()), pc.id);
                    }
                    Ok(Some(Pdu::AssociationRJ(_))) => break "RJ".to_string(),
                    Ok(Some(other)) => break format!("OTHER {}", other.short_description()).replace(' ', "_"),
                    Ok(None) => {}
                    Err(e) => break format!("READERR {}", e).replace(' ', "_"),
                }
                match sock.read(&mut chunk) { Ok(0) => break "CLOSED".to_string(), Ok(k) => buf.extend_from_slice(&chunk[..k]), Err(e) => break format!("IOERR {}", e).replace(' ', "_") }
            };
            drop(sock);
            let _ = server.join();
            out
        }
        // negotiate_rq <protocol version> <app context ok 0|1> <user items: number=Max Length, V, R,|-> <context ids,|-> <access granted 0|1>
        //   -> "MATCH <what>" | "MISMATCH <what>": a real acceptor (1 configured abstract syntax 1.2.3, any transfer syntax) answers the request over loopback
        //      and the answer is compared with the rules of C28 (rejection reason; one result per context, same ids in order; requestor max PDU length)
        "negotiate_rq" => {
            use dicom_ul::association::server::ServerAssociationOptions;
            use dicom_ul::pdu::{read_pdu, write_pdu, AssociationRJServiceUserReason, AssociationRJSource, AssociationRQ, Pdu, PresentationContextProposed, RequestorRoles, UserVariableItem};
            use std::io::Read;
            let pv: u16 = a[1].parse().unwrap();
            let app_ok = a[2] == "1";
            let uvs: Vec<String> = if a[3] == "-" { vec![] } else { a[3].split(',').map(|x| x.to_string()).collect() };
            let ids: Vec<u8> = if a[4] == "-" { vec![] } else { a[4].split(',').map(|x| x.parse().unwrap()).collect() };
            let granted = a[5] == "1";
            let listener = std::net::TcpListener::bind("127.0.0.1:0").unwrap();
            let addr = listener.local_addr().unwrap();
            let server = std::thread::spawn(move || -> String {
                let (sock, _) = match listener.accept() { Ok(x) => x, Err(e) => return format!("NOACCEPT {}", e) };
                let base = ServerAssociationOptions::new().with_abstract_syntax("1.2.3").ae_title("THIS-SCP");
                let r = if granted { base.accept_any().establish(sock).map(|a| a.requestor_max_pdu_length()) } else { base.accept_called_ae_title().establish(sock).map(|a| a.requestor_max_pdu_length()) };
                match r { Ok(m) => format!("MAX {}", m), Err(e) => format!("SERVERERR {}", e).replace(' ', "_") }
            });
            let mut sock = std::net::TcpStream::connect(addr).unwrap();
            sock.set_read_timeout(Some(std::time::Duration::from_secs(5))).ok();
            let mut user_variables = Vec::new();
            let mut last_max: Option<u32> = None;
            for u in &uvs {
                match u.as_str() {
                    "V" => user_variables.push(UserVariableItem::ImplementationVersionName("V".into())),
                    "R" => user_variables.push(UserVariableItem::ScuScpRoleSelectionSubItem("1.2.3".into(), RequestorRoles { scu: true, scp: false })),
                    n => { let v: u32 = n.parse().unwrap(); last_max = Some(v); user_variables.push(UserVariableItem::MaxLength(v)) }
                }
            }
            let rq = Pdu::AssociationRQ(AssociationRQ {
                protocol_version: pv, calling_ae_title: "SCU".into(), called_ae_title: if granted { "THIS-SCP".into() } else { "SOMEONE-ELSE".into() },
                application_context_name: if app_ok { "1.2.840.10008.3.1.1.1".into() } else { "1.2.3.9".into() },
                presentation_contexts: ids.iter().enumerate().map(|(k, id)| PresentationContextProposed { id: *id, abstract_syntax: if k % 2 == 0 { "1.2.3".into() } else { "1.2.4".into() },
                    transfer_syntaxes: vec![if k == 0 { "1.2.840.10008.1.2.1".to_string() } else { "1.2.9.9".to_string() }] }).collect(),
                user_variables,
            });
            if write_pdu(&mut sock, &rq).is_err() { return "WRITEERR".into(); }
            let mut buf: Vec<u8> = Vec::new();
            let mut chunk = [0u8; 4096];
            let answer = loop {
                let mut cur = &buf[..];
                match read_pdu(&mut cur, 16_384, false) {
                    Ok(Some(p)) => break Some(p),
                    Ok(None) => {}
                    Err(_) => break None,
                }
                match sock.read(&mut chunk) { Ok(0) => break None, Ok(k) => buf.extend_from_slice(&chunk[..k]), Err(_) => break None }
            };
            drop(sock);
            let sv = server.join().unwrap_or_default();
            let want_rj = if pv != 1 { Some(AssociationRJServiceUserReason::NoReasonGiven) } else if !app_ok { Some(AssociationRJServiceUserReason::ApplicationContextNameNotSupported) }
                          else if !granted { Some(AssociationRJServiceUserReason::CalledAETitleNotRecognized) } else { None };
            match (answer, want_rj) {
                (Some(Pdu::AssociationRJ(rj)), Some(w)) => if rj.source == AssociationRJSource::ServiceUser(w.clone()) { format!("MATCH RJ {:?}", w).replace(' ', "_").replacen('_', " ", 1) } else { format!("MISMATCH RJ_{:?}_expected_{:?}", rj.source, w).replace(' ', "_").replacen('_', " ", 1) },
                (Some(Pdu::AssociationRJ(rj)), None) => format!("MISMATCH unexpected_RJ_{:?}", rj.source).replace(' ', "_").replacen('_', " ", 1),
                (Some(Pdu::AssociationAC(_)), Some(w)) => format!("MISMATCH accepted_expected_RJ_{:?}", w).replace(' ', "_").replacen('_', " ", 1),
                (Some(Pdu::AssociationAC(ac)), None) => {
                    let got: Vec<u8> = ac.presentation_contexts.iter().map(|p| p.id).collect();
                    let maximum = (u32::MAX & !1) - 6;
                    let want_max = match last_max { None => 32_768 - 6, Some(0) => maximum, Some(v) => v.min(maximum) };
                    if got != ids { format!("MISMATCH ids_{:?}_for_{:?}", got, ids).replace(' ', "") .replacen("MISMATCH", "MISMATCH ", 1) }
                    else if sv != format!("MAX {}", want_max) { format!("MISMATCH requestor_max_{}_expected_{}", sv.replace(' ', "_"), want_max) }
                    else { format!("MATCH AC ids={:?} {}", got, sv).replace(' ', "_").replacen('_', " ", 1) }
                }
                (other, _) => format!("OTHER {} / {}", other.map(|p| p.short_description().to_string()).unwrap_or_else(|| "no_answer".into()), sv).replace(' ', "_").replacen('_', " ", 1),
            }
        }
        // wire <pdus rq|rp|ab|pN,...> <read sizes,...|-> -> "OK" | "BAD <why>": the PDUs are written to one byte stream, a reader hands it out in reads of the
        //   given sizes (then the rest), and dicom_ul::association::read_pdu_from_wire is called once per PDU
        "wire" => {
            use dicom_ul::pdu::{write_pdu, AbortRQSource, PDataValue, PDataValueType, Pdu};
            struct Chunked { data: Vec<u8>, at: usize, sizes: Vec<usize>, k: usize }
            impl std::io::Read for Chunked {
                fn read(&mut self, buf: &mut [u8]) -> std::io::Result<usize> {
                    let left = self.data.len() - self.at;
                    let want = if self.k < self.sizes.len() { self.sizes[self.k] } else { left };
                    self.k += 1;
                    let n = want.min(left).min(buf.len());
                    buf[..n].copy_from_slice(&self.data[self.at..self.at + n]);
                    self.at += n;
                    Ok(n)
                }
            }
            let sent: Vec<Pdu> = a[1].split(',').map(|k| match k {
                "rq" => Pdu::ReleaseRQ, "rp" => Pdu::ReleaseRP, "ab" => Pdu::AbortRQ { source: AbortRQSource::ServiceUser },
                p => Pdu::PData { data: vec![PDataValue { presentation_context_id: 1, value_type: PDataValueType::Command, is_last: true, data: vec![0x11; p[1..].parse().unwrap()] }] },
            }).collect();
            let mut stream: Vec<u8> = Vec::new();
            for p in &sent { if write_pdu(&mut stream, p).is_err() { return "BAD write_error".into(); } }
            let sizes: Vec<usize> = if a[2] == "-" { vec![] } else { a[2].split(',').map(|x| x.parse().unwrap()).collect() };
            let mut rd = Chunked { data: stream, at: 0, sizes, k: 0 };
            let mut buf = bytes::BytesMut::new();
            for (i, p) in sent.iter().enumerate() {
                match dicom_ul::association::read_pdu_from_wire(&mut rd, &mut buf, 16_378, true) {
                    Ok(q) if &q == p => {}
                    Ok(q) => return format!("BAD receive_{}_returned_{}", i + 1, q.short_description()).replace(' ', "_").replacen('_', " ", 1),
                    Err(e) => return format!("BAD receive_{}_error_{}", i + 1, e).replace(' ', "_").replacen('_', " ", 1),
                }
            }
            if !buf.is_empty() { return format!("BAD {}_bytes_left", buf.len()); }
            "OK".into()
        }
        // io_fail ds <codec> <default|nochange> <k> | io_fail pdu <k> | io_fail read <k> <read sizes,...>
        //   the same operations as in the C34 case over a writer / transport whose k-th call fails (k = 0: never):
        //   -> "ERR" (the operation reported an error) | "OK" (it reported success) ; the caller knows whether call k was reached
        "io_fail" => {
            struct FailW { n: usize, k: usize, failed: bool, out: Vec<u8>, zero: bool }
            impl std::io::Write for FailW {
                fn write(&mut self, buf: &[u8]) -> std::io::Result<usize> {
                    self.n += 1;
                    if self.k != 0 && self.n == self.k { self.failed = true; if self.zero { return Ok(0); } return Err(std::io::Error::new(std::io::ErrorKind::Other, "injected")); }
                    self.out.extend_from_slice(buf); Ok(buf.len())
                }
                fn flush(&mut self) -> std::io::Result<()> { Ok(()) }
            }
            match a[1] {
                "ds" => {
                    use dicom_core::header::{DataElementHeader, Length};
                    use dicom_core::VR;
                    use dicom_parser::dataset::write::{DataSetWriter, DataSetWriterOptions, ExplicitLengthSqItemStrategy};
                    use dicom_parser::dataset::DataToken;
                    let nochange = a[3] == "nochange";
                    let k: usize = a[4].parse().unwrap();
                    let el = if a[2] == "ile" { 8 + 2 } else { 8 + 2 };
                    let undef = 0xFFFF_FFFFu32;
                    let toks = vec![
                        DataToken::SequenceStart { tag: Tag(0x0008, 0x1115), len: Length(if nochange { 8 + el } else { undef }) },
                        DataToken::ItemStart { len: Length(if nochange { el } else { undef }) },
                        DataToken::ElementHeader(DataElementHeader::new(Tag(0x0028, 0x0010), VR::US, Length(0))), DataToken::PrimitiveValue(PrimitiveValue::U16([7u16].into_iter().collect())),
                        DataToken::ItemEnd, DataToken::SequenceEnd,
                        DataToken::ElementHeader(DataElementHeader::new(Tag(0x0010, 0x0010), VR::PN, Length(0))), DataToken::PrimitiveValue(PrimitiveValue::Str("A^B".into())),
                        DataToken::PixelSequenceStart, DataToken::ItemStart { len: Length(0) }, DataToken::ItemEnd,
                        DataToken::ItemStart { len: Length(3) }, DataToken::ItemValue(vec![1, 2, 3]), DataToken::ItemEnd, DataToken::SequenceEnd,
                    ];
                    let opts = DataSetWriterOptions::default().explicit_length_sq_item_strategy(if nochange { ExplicitLengthSqItemStrategy::NoChange } else { ExplicitLengthSqItemStrategy::SetUndefined });
                    let mut w = FailW { n: 0, k, failed: false, out: vec![], zero: a.len() > 5 && a[5] == "zero" };
                    let mut result = "OK";
                    macro_rules! go { ($enc:expr) => {{
                        let mut dw = DataSetWriter::new_with_options(&mut w, dicom_encoding::encode::EncoderFor::new($enc), opts);
                        for t in toks { if dw.write(t).is_err() { result = "ERR"; break; } }
                    }}}
                    match a[2] {
                        "ele" => go!(dicom_encoding::encode::explicit_le::ExplicitVRLittleEndianEncoder::default()),
                        "ile" => go!(dicom_encoding::encode::implicit_le::ImplicitVRLittleEndianEncoder::default()),
                        _ => go!(dicom_encoding::encode::explicit_be::ExplicitVRBigEndianEncoder::default()),
                    };
                    format!("{} failed={} calls={}", result, w.failed, w.n)
                }
                "pdu" => {
                    use dicom_ul::pdu::{write_pdu, AssociationRQ, Pdu, PresentationContextProposed, RequestorRoles, UserVariableItem};
                    let k: usize = a[2].parse().unwrap();
                    let pdu = Pdu::AssociationRQ(AssociationRQ {
                        protocol_version: 1, calling_ae_title: "CALLING".into(), called_ae_title: "CALLED-AE".into(), application_context_name: "1.2.840.10008.3.1.1.1".into(),
                        presentation_contexts: vec![PresentationContextProposed { id: 1, abstract_syntax: "1.2.3".into(), transfer_syntaxes: vec!["1.2.840.10008.1.2".into()] }],
                        user_variables: vec![UserVariableItem::MaxLength(16384), UserVariableItem::ImplementationClassUID("1.2".into()),
                                             UserVariableItem::ScuScpRoleSelectionSubItem("1.2".into(), RequestorRoles { scu: true, scp: false }), UserVariableItem::ImplementationVersionName("V".into())],
                    });
                    let mut w = FailW { n: 0, k, failed: false, out: vec![], zero: false };
                    let r = write_pdu(&mut w, &pdu);
                    format!("{} failed={} calls={}", if r.is_ok() { "OK" } else { "ERR" }, w.failed, w.n)
                }
                _ => {
                    use dicom_ul::pdu::{write_pdu, PDataValue, PDataValueType, Pdu};
                    struct FailR { data: Vec<u8>, at: usize, sizes: Vec<usize>, n: usize, k: usize, failed: bool }
                    impl std::io::Read for FailR {
                        fn read(&mut self, buf: &mut [u8]) -> std::io::Result<usize> {
                            self.n += 1;
                            if self.k != 0 && self.n == self.k { self.failed = true; return Err(std::io::Error::new(std::io::ErrorKind::Other, "injected")); }
                            let left = self.data.len() - self.at;
                            let want = if self.n - 1 < self.sizes.len() { self.sizes[self.n - 1] } else { left };
                            let m = want.min(left).min(buf.len());
                            buf[..m].copy_from_slice(&self.data[self.at..self.at + m]); self.at += m; Ok(m)
                        }
                    }
                    let k: usize = a[2].parse().unwrap();
                    let sizes: Vec<usize> = if a.len() > 3 && a[3] != "-" { a[3].split(',').map(|x| x.parse().unwrap()).collect() } else { vec![] };
                    let mut stream = Vec::new();
                    let _ = write_pdu(&mut stream, &Pdu::PData { data: vec![PDataValue { presentation_context_id: 1, value_type: PDataValueType::Command, is_last: true, data: vec![9] }] });
                    let _ = write_pdu(&mut stream, &Pdu::ReleaseRQ);
                    let mut rd = FailR { data: stream, at: 0, sizes, n: 0, k, failed: false };
                    let mut buf = bytes::BytesMut::new();
                    let mut out = Vec::new();
                    for _ in 0..2 {
                        let before = rd.failed;
                        let r = dicom_ul::association::read_pdu_from_wire(&mut rd, &mut buf, 16_378, true);
                        out.push(format!("{}{}", if r.is_ok() { "OK" } else { "ERR" }, if rd.failed && !before { "*" } else { "" }));
                        if r.is_err() { break; }
                    }
                    format!("{} failed={}", out.join(","), rd.failed)
                }
            }
        }
        // apply_leaf <action> <ggggeeee> <new VR> <new u16 value> <new text hex> [<ggggeeee> <u16 value>]... -> "DUMP ggggeeee:VR:kind:payload;..." | "ERR <e>"
        //   the object holds the listed elements (VR US, LO alternating, one U16 value each); the action is applied to the addressed tag
        "apply_leaf" => {
            use dicom_core::ops::{ApplyOp, AttributeAction, AttributeOp};
            use dicom_core::value::Value;
            use dicom_core::{DataElement, VR};
            use dicom_object::InMemDicomObject;
            use std::str::FromStr;
            let tg = |x: &str| Tag(u16::from_str_radix(&x[..4], 16).unwrap(), u16::from_str_radix(&x[4..], 16).unwrap());
            let target = tg(a[2]);
            let newvr = VR::from_str(a[3]).unwrap();
            let newval: u16 = a[4].parse().unwrap();
            let newtext = String::from_utf8(unhex(a[5])).unwrap();
            let mut obj = InMemDicomObject::new_empty();
            let mut k = 0;
            let mut i = 6;
            while i + 1 < a.len() {
                let v: u16 = a[i + 1].parse().unwrap();
                if k == 0 && (a[1] == "SetEmpty" || a[1] == "ReplaceEmpty") {
                    // the first element is a data set sequence with one empty item
                    obj.put(DataElement::new(tg(a[i]), VR::SQ, dicom_core::value::DataSetSequence::from(vec![InMemDicomObject::new_empty()])));
                } else {
                    obj.put(DataElement::new(tg(a[i]), if k % 2 == 0 { VR::US } else { VR::LO }, PrimitiveValue::U16([v].into_iter().collect())));
                }
                k += 1; i += 2;
            }
            let pv = PrimitiveValue::U16([newval].into_iter().collect());
            let action = match a[1] {
                "Remove" => AttributeAction::Remove, "Empty" => AttributeAction::Empty, "SetVr" => AttributeAction::SetVr(newvr),
                "SetEmpty" => AttributeAction::Set(PrimitiveValue::Empty), "ReplaceEmpty" => AttributeAction::Replace(PrimitiveValue::Empty),
                "Set" => AttributeAction::Set(pv), "SetStr" => AttributeAction::SetStr(newtext.into()), "SetIfMissing" => AttributeAction::SetIfMissing(pv),
                "SetStrIfMissing" => AttributeAction::SetStrIfMissing(newtext.into()), "Replace" => AttributeAction::Replace(pv), _ => AttributeAction::ReplaceStr(newtext.into()),
            };
            if let Err(e) = obj.apply(AttributeOp::new(target, action)) { return format!("ERR {}", e).replace(' ', "_").replacen('_', " ", 1); }
            let mut out = Vec::new();
            for e in obj.iter() {
                let h = e.header();
                let (kind, payload) = match e.value() {
                    Value::Primitive(PrimitiveValue::U16(v)) => ("U16", v.iter().map(|x| x.to_string()).collect::<Vec<_>>().join(",")),
                    Value::Primitive(PrimitiveValue::Str(s)) => ("Str", hex(s.as_bytes())),
                    Value::Primitive(PrimitiveValue::Empty) => ("Empty", String::new()),
                    Value::Primitive(_) => ("OtherPrimitive", String::new()),
                    Value::Sequence(sq) => ("Sequence", sq.items().len().to_string()),
                    Value::PixelSequence(_) => ("PixelSequence", String::new()),
                };
                out.push(format!("{:04x}{:04x}:{}:{}:{}", h.tag.0, h.tag.1, h.vr.to_string(), kind, payload));
            }
            format!("DUMP {}", out.join(";"))
        }
        // apply_nested <action> <items in the stored sequence> <sequence tag> <primitive tag> <selector tag> <item index> <leaf tag> <u16 value>
        //   -> "OK items=<n in the addressed sequence or -> attrs=<n>" | "ERR <error>"
        "apply_nested" => {
            use dicom_core::ops::{ApplyOp, AttributeAction, AttributeOp, AttributeSelector};
            use dicom_core::value::{DataSetSequence, Value};
            use dicom_core::{DataElement, VR};
            use dicom_object::InMemDicomObject;
            let tg = |x: &str| Tag(u16::from_str_radix(&x[..4], 16).unwrap(), u16::from_str_radix(&x[4..], 16).unwrap());
            let n_items: usize = a[2].parse().unwrap();
            let (seq_tag, prim_tag, sel_tag, leaf) = (tg(a[3]), tg(a[4]), tg(a[5]), tg(a[7]));
            let idx: u32 = a[6].parse().unwrap();
            let v: u16 = a[8].parse().unwrap();
            let mut obj = InMemDicomObject::new_empty();
            obj.put(DataElement::new(seq_tag, VR::SQ, DataSetSequence::from((0..n_items).map(|_| InMemDicomObject::new_empty()).collect::<Vec<_>>())));
            obj.put(DataElement::new(prim_tag, VR::US, PrimitiveValue::U16([1u16].into_iter().collect())));
            let pv = PrimitiveValue::U16([v].into_iter().collect());
            let action = match a[1] { "Set" => AttributeAction::Set(pv), "Replace" => AttributeAction::Replace(pv), _ => AttributeAction::Remove };
            let r = obj.apply(AttributeOp::new(AttributeSelector::from((sel_tag, idx, leaf)), action));
            let items = match obj.get(sel_tag).map(|e| e.value()) { Some(Value::Sequence(sq)) => sq.items().len().to_string(), _ => "-".into() };
            match r { Ok(()) => format!("OK items={} attrs={}", items, obj.iter().count()), Err(e) => format!("ERR {} items={} attrs={}", e, items, obj.iter().count()).replace(' ', "_").replacen('_', " ", 1) }
        }
        // parse_kw <kw,kw,...> -> "ALLRESOLVE <n>" if parse_tag(kw) == by_name(kw).tag for every given keyword, else "UNRESOLVED <kw>,..." (up to 8)
        "parse_kw" => {
            use dicom_core::dictionary::{DataDictionary, DataDictionaryEntry};
            let mut bad: Vec<String> = Vec::new();
            let mut n = 0;
            for kw in a[1].split(',') {
                n += 1;
                let want = StandardDataDictionary.by_name(kw).map(|e| e.tag());
                if want.is_none() || StandardDataDictionary.parse_tag(kw) != want { bad.push(kw.to_string()); }
            }
            if bad.is_empty() { format!("ALLRESOLVE {}", n) } else { format!("UNRESOLVED {}", bad.iter().take(8).cloned().collect::<Vec<_>>().join(",")) }
        }
        // pdu_big <L>: write an A-ASSOCIATE-RQ holding one unknown user sub-item with L content bytes, then read the bytes back
        "pdu_big" => {
            use dicom_ul::pdu::{read_pdu, write_pdu, AssociationRQ, Pdu, PresentationContextProposed, UserVariableItem};
            let l: usize = a[1].parse().unwrap();
            let pdu = Pdu::AssociationRQ(AssociationRQ {
                protocol_version: 1,
                calling_ae_title: "A".into(),
                called_ae_title: "B".into(),
                application_context_name: "1.2.840.10008.3.1.1.1".into(),
                presentation_contexts: vec![PresentationContextProposed { id: 1, abstract_syntax: "1.2.840.10008.1.1".into(), transfer_syntaxes: vec!["1.2.840.10008.1.2".into()] }],
                user_variables: vec![UserVariableItem::Unknown(0x77, vec![0x41; l])],
            });
            let mut bytes: Vec<u8> = Vec::new();
            match write_pdu(&mut bytes, &pdu) {
                Err(e) => format!("WRITE_ERR {}", format!("{}", e).replace(' ', "_")),
                Ok(()) => {
                    let mut cur = &bytes[..];
                    match read_pdu(&mut cur, 16_378, false) {
                        Ok(Some(p)) if p == pdu && cur.is_empty() => "ROUNDTRIP_OK".into(),
                        Ok(Some(_)) => format!("CORRUPT different_pdu_or_{}_bytes_left", cur.len()),
                        Ok(None) => "CORRUPT reads_as_incomplete".into(),
                        Err(e) => format!("CORRUPT read_error_{}", format!("{}", e).replace(' ', "_")),
                    }
                }
            }
        }
        // bot <len0> <len1> ... -> the basic offset table of frames with one fragment of that many bytes each
        "bot" => {
            use dicom_core::value::fragments::Fragments;
            let frames: Vec<Fragments> = a[1..].iter().map(|s| Fragments::new(vec![1u8; s.parse::<usize>().unwrap()], 0)).collect();
            let seq: dicom_core::value::PixelFragmentSequence<Vec<u8>> = frames.into();
            seq.offset_table().iter().map(|x| x.to_string()).collect::<Vec<_>>().join(" ")
        }
        // time_range <variant 0-3> h m s fraction precision -> "<earliest us> <latest us>" (microseconds after midnight, leap second above 86_399_999_999) | ERR
        "time_range" => {
            use dicom_core::value::{AsRange, DicomTime};
            use dicom_core::chrono::Timelike;
            let n: Vec<u32> = a[1..].iter().map(|x| x.parse().unwrap()).collect();
            let t = match n[0] {
                0 => DicomTime::from_h(n[1] as u8),
                1 => DicomTime::from_hm(n[1] as u8, n[2] as u8),
                2 => DicomTime::from_hms(n[1] as u8, n[2] as u8, n[3] as u8),
                _ => match n[5] {
                    3 => DicomTime::from_hms_milli(n[1] as u8, n[2] as u8, n[3] as u8, n[4]),
                    6 => DicomTime::from_hms_micro(n[1] as u8, n[2] as u8, n[3] as u8, n[4]),
                    _ => return "SKIP".into(),
                },
            };
            let t = match t { Ok(t) => t, Err(_) => return "ERR_CONSTRUCT".into() };
            let us = |x: dicom_core::chrono::NaiveTime| (x.num_seconds_from_midnight() as u64) * 1_000_000 + (x.nanosecond() as u64) / 1000;
            match (t.earliest(), t.latest()) {
                (Ok(e), Ok(l)) => format!("{} {}", us(e), us(l)),
                _ => "ERR".into(),
            }
        }
        // cmd_len (GGGG EEEE len)* -> "<value of (0000,0000)> <bytes written in Implicit VR LE for the other group-0000 elements>"
        // cmd_len_decl: as cmd_len with a fourth word per element, the length declared in the element's header (DataElement::new_with_len)
        "cmd_len" | "cmd_len_decl" => {
            use dicom_core::{DataElement, VR};
            use dicom_object::InMemDicomObject;
            let mut elems = Vec::new();
            let w = if a[0] == "cmd_len" { 3 } else { 4 };
            for c in a[1..].chunks(w) {
                let t = Tag(u16::from_str_radix(c[0], 16).unwrap(), u16::from_str_radix(c[1], 16).unwrap());
                let l: usize = c[2].parse().unwrap();
                let v = PrimitiveValue::U8(vec![0x55u8; l].into());
                if w == 3 { elems.push(DataElement::new(t, VR::OB, v)); }
                else { elems.push(DataElement::new_with_len(t, VR::OB, dicom_core::Length(c[3].parse().unwrap()), v)); }
            }
            let obj = InMemDicomObject::command_from_element_iter(elems);
            let glen = obj.element(Tag(0, 0)).unwrap().to_int::<u32>().unwrap();
            let ts = dicom_transfer_syntax_registry::entries::IMPLICIT_VR_LITTLE_ENDIAN.erased();
            let mut bytes: Vec<u8> = Vec::new();
            obj.write_dataset_with_ts(&mut bytes, &ts).unwrap();
            // walk the implicit VR LE stream: count the bytes of group-0000 elements other than (0000,0000)
            let mut at = 0usize;
            let mut count = 0usize;
            while at + 8 <= bytes.len() {
                let g = u16::from_le_bytes([bytes[at], bytes[at + 1]]);
                let e = u16::from_le_bytes([bytes[at + 2], bytes[at + 3]]);
                let l = u32::from_le_bytes([bytes[at + 4], bytes[at + 5], bytes[at + 6], bytes[at + 7]]) as usize;
                if g == 0 && e != 0 { count += 8 + l; }
                at += 8 + l;
            }
            format!("{} {}", glen, count)
        }
        // assoc_bytes rq|ac la lt lu -> "HEX <bytes>" of the written A-ASSOCIATE-RQ / -AC with every user sub-item kind (walked by the caller)
        "assoc_bytes" => {
            use dicom_ul::pdu::{write_pdu, AssociationAC, AssociationRQ, Pdu, PresentationContextProposed, PresentationContextResult, PresentationContextResultReason,
                                RequestorRoles, UserIdentity, UserIdentityType, UserVariableItem};
            let n: Vec<usize> = a[2..].iter().map(|x| x.parse().unwrap()).collect();
            let s = |k: usize| "1234567"[..k].to_string();
            let user_variables = vec![
                UserVariableItem::MaxLength(16384),
                UserVariableItem::ImplementationClassUID(s(n[2])),
                UserVariableItem::ScuScpRoleSelectionSubItem(s(n[2]), RequestorRoles { scu: true, scp: false }),
                UserVariableItem::SopClassExtendedNegotiationSubItem(s(n[2]), vec![1, 2]),
                UserVariableItem::ImplementationVersionName(s(n[2])),
                UserVariableItem::UserIdentityItem(UserIdentity::new(true, UserIdentityType::UsernamePassword, vec![7, 8], vec![9])),
                UserVariableItem::Unknown(0x77, vec![9]),
            ];
            let pdu = if a[1] == "rq" {
                Pdu::AssociationRQ(AssociationRQ {
                    protocol_version: 1,
                    calling_ae_title: "CALLING".into(),
                    called_ae_title: "CALLED-AE".into(),
                    application_context_name: s(n[0]),
                    presentation_contexts: vec![PresentationContextProposed { id: 1, abstract_syntax: s(n[0]), transfer_syntaxes: vec![s(n[1]), s(1)] }],
                    user_variables,
                })
            } else {
                Pdu::AssociationAC(AssociationAC {
                    protocol_version: 1,
                    calling_ae_title: "CALLING".into(),
                    called_ae_title: "CALLED-AE".into(),
                    application_context_name: s(n[0]),
                    presentation_contexts: vec![
                        PresentationContextResult { id: 1, reason: PresentationContextResultReason::Acceptance, transfer_syntax: s(n[1]) },
                        PresentationContextResult { id: 3, reason: PresentationContextResultReason::TransferSyntaxesNotSupported, transfer_syntax: s(1) },
                    ],
                    user_variables,
                })
            };
            let mut b: Vec<u8> = Vec::new();
            if write_pdu(&mut b, &pdu).is_err() { return "BAD write_error".into(); }
            format!("HEX {}", b.iter().map(|x| format!("{:02x}", x)).collect::<String>())
        }
        // c04_elem codec gggg eeee VR hdr_len variant vals... -> "N <bytes_written> <hex of the stream> <hex of the raw value>"
        "c04_elem" => {
            use dicom_core::header::{DataElementHeader, Length};
            use dicom_core::VR;
            use dicom_encoding::text::SpecificCharacterSet;
            use dicom_parser::stateful::encode::StatefulEncoder;
            use std::str::FromStr;
            let big = a[1] == "ebe";
            let g = u16::from_str_radix(a[2], 16).unwrap();
            let e = u16::from_str_radix(a[3], 16).unwrap();
            let vr = VR::from_str(a[4]).unwrap();
            let hl: u32 = a[5].parse().unwrap();
            let vals = &a[7..];
            let mut raw: Vec<u8> = Vec::new();
            macro_rules! nums { ($t:ty, $variant:ident) => {{
                let xs: Vec<$t> = vals.iter().map(|x| x.parse::<u64>().unwrap() as $t).collect();
                for x in &xs { if big { raw.extend_from_slice(&x.to_be_bytes()) } else { raw.extend_from_slice(&x.to_le_bytes()) } }
                PrimitiveValue::$variant(xs.into_iter().collect())
            }}}
            let value = match a[6] {
                "U8" => nums!(u8, U8), "U16" => nums!(u16, U16), "I16" => nums!(i16, I16), "U32" => nums!(u32, U32), "I32" => nums!(i32, I32),
                "U64" => nums!(u64, U64), "I64" => nums!(i64, I64),
                // expected raw value: ISO 8859-1 of the text (identical to the UTF-8 bytes for ASCII text)
                "Str" => { let s = String::from_utf8(unhex(vals[0])).unwrap(); raw.extend(s.chars().map(|c| c as u32 as u8)); PrimitiveValue::Str(s) }
                "Strs" => {
                    let ss: Vec<String> = vals.iter().map(|x| String::from_utf8(unhex(x)).unwrap()).collect();
                    raw.extend(ss.join("\\").chars().map(|c| c as u32 as u8));
                    PrimitiveValue::Strs(ss.into_iter().collect())
                }
                "Tags" => {
                    let tg: u16 = vals[0].parse().unwrap(); let te: u16 = vals[1].parse().unwrap();
                    for x in [tg, te] { if big { raw.extend_from_slice(&x.to_be_bytes()) } else { raw.extend_from_slice(&x.to_le_bytes()) } }
                    PrimitiveValue::Tags([Tag(tg, te)].into_iter().collect())
                }
                _ => PrimitiveValue::Empty,
            };
            let de = DataElementHeader::new(Tag(g, e), vr, Length(hl));
            let mut out: Vec<u8> = Vec::new();
            macro_rules! go { ($enc:expr) => {{
                let mut se = StatefulEncoder::new(&mut out, dicom_encoding::encode::EncoderFor::new($enc), SpecificCharacterSet::default());
                if se.encode_primitive_element(&de, &value).is_err() { return "BAD encode_error".into(); }
                se.bytes_written()
            }}}
            let bw = match a[1] {
                "ele" => go!(dicom_encoding::encode::explicit_le::ExplicitVRLittleEndianEncoder::default()),
                "ile" => go!(dicom_encoding::encode::implicit_le::ImplicitVRLittleEndianEncoder::default()),
                _ => go!(dicom_encoding::encode::explicit_be::ExplicitVRBigEndianEncoder::default()),
            };
            format!("N {} {} {}", bw, if out.is_empty() { "-".to_string() } else { hex(&out) }, if raw.is_empty() { "-".to_string() } else { hex(&raw) })
        }
        // c04_dates codec VR constructor y:mo:d:h:mi:s:f:fp:off ... -> "N <bytes_written> <hex> <text length by to_encoded>" | "REFUSED" (constructor error)
        "c04_dates" => {
            use dicom_core::header::{DataElementHeader, Length};
            use dicom_core::value::{DicomDate, DicomDateTime, DicomTime};
            use dicom_core::VR;
            use dicom_encoding::text::SpecificCharacterSet;
            use dicom_parser::stateful::encode::StatefulEncoder;
            use std::str::FromStr;
            let vr = VR::from_str(a[2]).unwrap();
            let cname = a[3];
            let mut dates = Vec::new(); let mut times = Vec::new(); let mut dts = Vec::new();
            let mut text_len = 0usize;
            for (k, w) in a[4..].iter().enumerate() {
                let f: Vec<i64> = w.split(':').map(|x| x.parse().unwrap()).collect();
                let (y, mo, d, h, mi, s, fr, _fp, off) = (f[0] as u16, f[1] as u8, f[2] as u8, f[3] as u8, f[4] as u8, f[5] as u8, f[6] as u32, f[7] as u8, f[8] as i32);
                let mk_date = |name: &str| match name { "from_y" => DicomDate::from_y(y), "from_ym" => DicomDate::from_ym(y, mo), _ => DicomDate::from_ymd(y, mo, d) };
                let mk_time = |name: &str| match name {
                    "from_h" => DicomTime::from_h(h), "from_hm" => DicomTime::from_hm(h, mi), "from_hms" => DicomTime::from_hms(h, mi, s),
                    "from_hms_milli" => DicomTime::from_hms_milli(h, mi, s, fr), _ => DicomTime::from_hms_micro(h, mi, s, fr),
                };
                if k > 0 { text_len += 1; }
                match a[2] {
                    "DA" => { match mk_date(cname) { Ok(v) => { text_len += v.to_encoded().len(); dates.push(v) } Err(_) => return "REFUSED".into() } }
                    "TM" => { if cname == "from_hmsf" { return "REFUSED hmsf_is_private".into(); } match mk_time(cname) { Ok(v) => { text_len += v.to_encoded().len(); times.push(v) } Err(_) => return "REFUSED".into() } }
                    _ => {
                        let with_time = cname.contains("and_time");
                        let dfn = if with_time { "from_ymd" } else { ["from_ymd", "from_ym", "from_y"][k % 3] };
                        let date = match mk_date(dfn) { Ok(v) => v, Err(_) => return "REFUSED".into() };
                        let off = match dicom_core::chrono::FixedOffset::east_opt(off) { Some(o) => o, None => return "REFUSED".into() };
                        let v = if with_time {
                            let t = match mk_time("from_hms_micro") { Ok(v) => v, Err(_) => return "REFUSED".into() };
                            let r = if cname.contains("time_zone") { DicomDateTime::from_date_and_time_with_time_zone(date, t, off) } else { DicomDateTime::from_date_and_time(date, t) };
                            match r { Ok(v) => v, Err(_) => return "REFUSED".into() }
                        } else if cname.contains("time_zone") { DicomDateTime::from_date_with_time_zone(date, off) } else { DicomDateTime::from_date(date) };
                        text_len += v.to_encoded().len(); dts.push(v)
                    }
                }
            }
            let value = match a[2] { "DA" => PrimitiveValue::Date(dates.into_iter().collect()), "TM" => PrimitiveValue::Time(times.into_iter().collect()), _ => PrimitiveValue::DateTime(dts.into_iter().collect()) };
            let de = DataElementHeader::new(Tag(0x0008, 0x002A), vr, Length(0));
            let mut out: Vec<u8> = Vec::new();
            macro_rules! go { ($enc:expr) => {{
                let mut se = StatefulEncoder::new(&mut out, dicom_encoding::encode::EncoderFor::new($enc), SpecificCharacterSet::default());
                if se.encode_primitive_element(&de, &value).is_err() { return "BAD encode_error".into(); }
                se.bytes_written()
            }}}
            let bw = match a[1] {
                "ele" => go!(dicom_encoding::encode::explicit_le::ExplicitVRLittleEndianEncoder::default()),
                "ile" => go!(dicom_encoding::encode::implicit_le::ImplicitVRLittleEndianEncoder::default()),
                _ => go!(dicom_encoding::encode::explicit_be::ExplicitVRBigEndianEncoder::default()),
            };
            format!("N {} {} {}", bw, hex(&out), text_len)
        }
        // dt_roundtrip Date|Time|DateTime <constructor[/date ctor[/time ctor]]> y:mo:d:h:mi:s:f:fp:off -> "SAME <text>" | "DIFF <text> <why>" | "REFUSED"
        "dt_roundtrip" => {
            use dicom_core::value::deserialize::{parse_date_partial, parse_datetime_partial, parse_time_partial};
            use dicom_core::value::{DicomDate, DicomDateTime, DicomTime};
            let f: Vec<i64> = a[3].split(':').map(|x| x.parse().unwrap()).collect();
            let (y, mo, d, h, mi, s, fr, _fp, off) = (f[0] as u16, f[1] as u8, f[2] as u8, f[3] as u8, f[4] as u8, f[5] as u8, f[6] as u32, f[7] as u8, f[8] as i32);
            let parts: Vec<&str> = a[2].split('/').collect();
            let mk_date = |name: &str| match name { "from_y" => DicomDate::from_y(y), "from_ym" => DicomDate::from_ym(y, mo), _ => DicomDate::from_ymd(y, mo, d) };
            let mk_time = |name: &str| match name {
                "from_h" => DicomTime::from_h(h), "from_hm" => DicomTime::from_hm(h, mi), "from_hms" => DicomTime::from_hms(h, mi, s),
                "from_hms_milli" => DicomTime::from_hms_milli(h, mi, s, fr), _ => DicomTime::from_hms_micro(h, mi, s, fr),
            };
            match a[1] {
                "Date" => {
                    let v = match mk_date(parts[0]) { Ok(v) => v, Err(_) => return "REFUSED".into() };
                    let t = v.to_encoded();
                    let bl = PrimitiveValue::from(v).calculate_byte_len();
                    match parse_date_partial(t.as_bytes()) {
                        Ok((b, rest)) if b == v && rest.is_empty() && bl == (t.len() + 1) & !1 => format!("SAME {}", t),
                        Ok((b, rest)) => format!("DIFF {} parsed={:?} rest={} byte_len={}", t, b, rest.len(), bl).replace(' ', "_").replacen('_', " ", 1),
                        Err(e) => format!("DIFF {} error={}", t, e).replace(' ', "_").replacen('_', " ", 1),
                    }
                }
                "Time" => {
                    if parts[0] == "from_hmsf" { return "REFUSED hmsf_is_private".into(); }
                    let v = match mk_time(parts[0]) { Ok(v) => v, Err(_) => return "REFUSED".into() };
                    let t = v.to_encoded();
                    let bl = PrimitiveValue::from(v).calculate_byte_len();
                    match parse_time_partial(t.as_bytes()) {
                        Ok((b, rest)) if b == v && rest.is_empty() && bl == (t.len() + 1) & !1 => format!("SAME {}", t),
                        Ok((b, rest)) => format!("DIFF {} parsed={:?} rest={} byte_len={}", t, b, rest.len(), bl).replace(' ', "_").replacen('_', " ", 1),
                        Err(e) => format!("DIFF {} error={}", t, e).replace(' ', "_").replacen('_', " ", 1),
                    }
                }
                _ => {
                    let date = match mk_date(parts[1]) { Ok(v) => v, Err(_) => return "REFUSED".into() };
                    let offset = match dicom_core::chrono::FixedOffset::east_opt(off) { Some(o) => o, None => return "REFUSED".into() };
                    let v = if parts.len() > 2 {
                        let t = match mk_time(if parts[2] == "from_hmsf" { "from_hms_micro" } else { parts[2] }) { Ok(v) => v, Err(_) => return "REFUSED".into() };
                        let r = if parts[0].contains("time_zone") { DicomDateTime::from_date_and_time_with_time_zone(date, t, offset) } else { DicomDateTime::from_date_and_time(date, t) };
                        match r { Ok(v) => v, Err(_) => return "REFUSED".into() }
                    } else if parts[0].contains("time_zone") { DicomDateTime::from_date_with_time_zone(date, offset) } else { DicomDateTime::from_date(date) };
                    let t = v.to_encoded();
                    let bl = PrimitiveValue::from(v).calculate_byte_len();
                    match parse_datetime_partial(t.as_bytes()) {
                        Ok(b) if b == v && bl == (t.len() + 1) & !1 => format!("SAME {}", t),
                        Ok(b) => format!("DIFF {} parsed={:?} byte_len={}", t, b, bl).replace(' ', "_").replacen('_', " ", 1),
                        Err(e) => format!("DIFF {} error={}", t, e).replace(' ', "_").replacen('_', " ", 1),
                    }
                }
            }
        }
        // file_flush_fail <transfer syntax uid> -> "ERR" | "OK" | "UNSUPPORTED": FileDicomObject::write_dataset of a small data set over a writer that
        // rejects every write (the data set fits the BufWriter, so the rejection can only surface when the writer is flushed)
        "file_flush_fail" => {
            use dicom_object::{FileMetaTableBuilder, InMemDicomObject};
            use dicom_core::{DataElement, VR, Tag, PrimitiveValue};
            struct Reject;
            impl std::io::Write for Reject {
                fn write(&mut self, _b: &[u8]) -> std::io::Result<usize> { Err(std::io::Error::new(std::io::ErrorKind::Other, "rejected")) }
                fn flush(&mut self) -> std::io::Result<()> { Ok(()) }
            }
            let mut obj = InMemDicomObject::new_empty();
            obj.put(DataElement::new(Tag(0x0010, 0x0010), VR::PN, PrimitiveValue::from("Doe^John")));
            let meta = FileMetaTableBuilder::new()
                .media_storage_sop_class_uid("1.2.840.10008.5.1.4.1.1.7")
                .media_storage_sop_instance_uid("1.2.3")
                .transfer_syntax(a[1]);
            let file = match obj.with_meta(meta) { Ok(f) => f, Err(_) => return "BAD meta".into() };
            match std::panic::catch_unwind(std::panic::AssertUnwindSafe(|| file.write_dataset(Reject))) {
                Ok(Ok(())) => "OK".into(),
                Ok(Err(e)) => { let t = format!("{}", e); if t.contains("nsupported") || t.contains("nrecognized") { "UNSUPPORTED".into() } else { "ERR".into() } }
                Err(_) => "PANIC".into(),
            }
        }
        // meta_op <presence mask> <field> <action> -> "L <OK|ERR> <recorded group length after the operation> <bytes that follow the group length element>"
        "meta_op" => {
            use dicom_object::meta::FileMetaTable;
            use dicom_core::ops::{ApplyOp, AttributeAction, AttributeOp};
            use dicom_core::{Tag, VR, PrimitiveValue};
            let mask: u32 = a[1].parse().unwrap();
            let opt = |bit: u32, s: &str| if mask >> bit & 1 == 1 { Some(s.to_string()) } else { None };
            let mut t = FileMetaTable {
                information_group_length: 0xDEAD,
                information_version: [0, 1],
                media_storage_sop_class_uid: "1".into(),
                media_storage_sop_instance_uid: "1.2".into(),
                transfer_syntax: "1".into(),
                implementation_class_uid: "1.2".into(),
                implementation_version_name: opt(0, "ABCDE"),
                source_application_entity_title: opt(1, "A"),
                sending_application_entity_title: opt(2, "ABC"),
                receiving_application_entity_title: opt(3, "A"),
                private_information_creator_uid: opt(4, "1.2"),
                private_information: if mask >> 5 & 1 == 1 { Some(vec![7u8; 1]) } else { None },
            };
            t.update_information_group_length();
            let tag = match a[2] { "transfer_syntax" => Tag(2, 0x10), "media_storage_sop_class_uid" => Tag(2, 2), "implementation_version_name" => Tag(2, 0x13),
                                   "source_application_entity_title" => Tag(2, 0x16), _ => Tag(2, 0x100) };
            let pv = PrimitiveValue::from("WXYZ");
            let action = match a[3] { "SetStr" => AttributeAction::SetStr("WXYZ".into()), "SetStrIfMissing" => AttributeAction::SetStrIfMissing("WXYZ".into()), "ReplaceStr" => AttributeAction::ReplaceStr("WXYZ".into()),
                                      "Set" => AttributeAction::Set(pv), "SetIfMissing" => AttributeAction::SetIfMissing(pv), "Remove" => AttributeAction::Remove, "Empty" => AttributeAction::Empty,
                                      "SetVr" => AttributeAction::SetVr(VR::LO), _ => AttributeAction::Truncate(1) };
            let r = t.apply(AttributeOp::new(tag, action));
            let mut out: Vec<u8> = Vec::new();
            if t.write(&mut out).is_err() { return "BAD write_error".into(); }
            format!("L {} {} {}", if r.is_ok() { "OK" } else { "ERR" }, t.information_group_length, out.len() as i64 - 12)
        }
        // meta_len <presence mask of the 6 optional attributes> <9 field texts in hex> <private information length> -> "L <recorded group length> <bytes that follow the group length element>"
        "meta_len" => {
            use dicom_object::meta::FileMetaTable;
            let mask: u32 = a[1].parse().unwrap();
            // fields 0..8: text in hex ('-' = empty); field 9: length of the private information
            let texts: Vec<String> = a[2..11].iter().map(|x| String::from_utf8(unhex(x)).unwrap()).collect();
            let n: Vec<usize> = vec![0, 0, 0, 0, 0, 0, 0, 0, 0, a[11].parse().unwrap()];
            let s = |k: usize| texts[k].clone();
            let opt = |bit: u32, k: usize| if mask >> bit & 1 == 1 { Some(s(k)) } else { None };
            let mut t = FileMetaTable {
                information_group_length: 0xDEAD,
                information_version: [0, 1],
                media_storage_sop_class_uid: s(0),
                media_storage_sop_instance_uid: s(1),
                transfer_syntax: s(2),
                implementation_class_uid: s(3),
                implementation_version_name: opt(0, 4),
                source_application_entity_title: opt(1, 5),
                sending_application_entity_title: opt(2, 6),
                receiving_application_entity_title: opt(3, 7),
                private_information_creator_uid: opt(4, 8),
                private_information: if mask >> 5 & 1 == 1 { Some(vec![7u8; n[9]]) } else { None },
            };
            t.update_information_group_length();
            let mut out: Vec<u8> = Vec::new();
            if t.write(&mut out).is_err() { return "BAD write_error".into(); }
            format!("L {} {}", t.information_group_length, out.len() as i64 - 12)
        }
        // to_float float32|float64 <variant> <items...> -> "OK <bits of result> <bits of first as float>" | "ERR"
        "to_float" => {
            macro_rules! mk { ($t:ty, $variant:ident) => {{
                let xs: Vec<$t> = a[3..].iter().map(|x| x.parse::<i128>().unwrap() as $t).collect();
                let first = xs.first().copied();
                (PrimitiveValue::$variant(xs.into_iter().collect()), first.map(|x| (x as f32).to_bits() as u64), first.map(|x| (x as f64).to_bits()))
            }}}
            let (v, w32, w64) = match a[2] {
                "U8" => mk!(u8, U8), "U16" => mk!(u16, U16), "I16" => mk!(i16, I16), "U32" => mk!(u32, U32), "I32" => mk!(i32, I32), "U64" => mk!(u64, U64), _ => mk!(i64, I64),
            };
            if a[1] == "float32" {
                match v.to_float32() { Ok(x) => format!("OK {} {}", x.to_bits(), w32.map(|b| b.to_string()).unwrap_or("-".into())), Err(_) => "ERR".into() }
            } else {
                match v.to_float64() { Ok(x) => format!("OK {} {}", x.to_bits(), w64.map(|b| b.to_string()).unwrap_or("-".into())), Err(_) => "ERR".into() }
            }
        }
        // json_de <hex of a JSON document> -> "OK" | "ERR <message>" (main() answers "PANIC" when deserialisation panics)
        "json_de" => {
            let text = String::from_utf8(unhex(a[1])).unwrap();
            match dicom_json::from_str::<dicom_object::InMemDicomObject>(&text) {
                Ok(_) => "OK".into(),
                Err(e) => format!("ERR {}", e).replace(' ', "_").replacen('_', " ", 1),
            }
        }
        // c04_tokens codec default|nochange token... -> "N - <hex of the stream>"
        //   tokens: S:gggg,eeee,len  I:len  i  s  P  E:gggg,eeee,US,v,v..  E:gggg,eeee,VR,texthex  F:hex  O:n,n
        "c04_tokens" => {
            use dicom_core::header::{DataElementHeader, Length};
            use dicom_core::VR;
            use dicom_parser::dataset::write::{DataSetWriter, DataSetWriterOptions, ExplicitLengthSqItemStrategy};
            use dicom_parser::dataset::DataToken;
            use std::str::FromStr;
            let mut toks: Vec<DataToken> = Vec::new();
            for t in &a[3..] {
                let (k, rest) = t.split_once(':').unwrap_or((t, ""));
                let f: Vec<&str> = rest.split(',').collect();
                match k {
                    "S" => toks.push(DataToken::SequenceStart { tag: Tag(u16::from_str_radix(f[0], 16).unwrap(), u16::from_str_radix(f[1], 16).unwrap()), len: Length(f[2].parse().unwrap()) }),
                    "I" => toks.push(DataToken::ItemStart { len: Length(f[0].parse().unwrap()) }),
                    "i" => toks.push(DataToken::ItemEnd),
                    "s" => toks.push(DataToken::SequenceEnd),
                    "P" => toks.push(DataToken::PixelSequenceStart),
                    "E" => {
                        let tag = Tag(u16::from_str_radix(f[0], 16).unwrap(), u16::from_str_radix(f[1], 16).unwrap());
                        let vr = VR::from_str(f[2]).unwrap();
                        toks.push(DataToken::ElementHeader(DataElementHeader::new(tag, vr, Length(0x77))));
                        if f[2] == "US" {
                            toks.push(DataToken::PrimitiveValue(PrimitiveValue::U16(f[3..].iter().map(|x| x.parse::<u16>().unwrap()).collect())));
                        } else {
                            toks.push(DataToken::PrimitiveValue(PrimitiveValue::Str(String::from_utf8(unhex(f[3])).unwrap())));
                        }
                    }
                    "F" => toks.push(DataToken::ItemValue(unhex(f[0]))),
                    "O" => toks.push(DataToken::OffsetTable(if f[0] == "-" { vec![] } else { f.iter().map(|x| x.parse::<u32>().unwrap()).collect() })),
                    _ => return "BAD token".into(),
                }
            }
            let opts = DataSetWriterOptions::default().explicit_length_sq_item_strategy(if a[2] == "nochange" { ExplicitLengthSqItemStrategy::NoChange } else { ExplicitLengthSqItemStrategy::SetUndefined });
            let mut out: Vec<u8> = Vec::new();
            macro_rules! go { ($enc:expr) => {{
                let mut dw = DataSetWriter::new_with_options(&mut out, dicom_encoding::encode::EncoderFor::new($enc), opts);
                for t in toks { if dw.write(t).is_err() { return "BAD write_error".into(); } }
            }}}
            match a[1] {
                "ele" => go!(dicom_encoding::encode::explicit_le::ExplicitVRLittleEndianEncoder::default()),
                "ile" => go!(dicom_encoding::encode::implicit_le::ImplicitVRLittleEndianEncoder::default()),
                _ => go!(dicom_encoding::encode::explicit_be::ExplicitVRBigEndianEncoder::default()),
            };
            format!("N - {}", if out.is_empty() { "-".to_string() } else { hex(&out) })
        }
        // ts_dump -> one line per registered transfer syntax
        "ts_dump" => {
            use dicom_encoding::transfer_syntax::TransferSyntaxIndex;
            use dicom_transfer_syntax_registry::TransferSyntaxRegistry;
            let mut v: Vec<String> = TransferSyntaxRegistry
                .iter()
                .map(|ts| {
                    use dicom_core::header::{DataElementHeader, Length};
                    use dicom_encoding::transfer_syntax::Codec;
                    let mut hdr: Vec<u8> = Vec::new();
                    let enc = ts.encoder_for::<Vec<u8>>();
                    if let Some(mut e) = ts.encoder_for::<Vec<u8>>() {
                        let _ = e.encode_element_header(&mut hdr, DataElementHeader::new(Tag(0x0008, 0x0018), dicom_core::VR::UI, Length(2)));
                    }
                    let shape = match ts.codec() {
                        Codec::None => "None",
                        Codec::EncapsulatedPixelData(..) => "Encapsulated",
                        Codec::Dataset(Some(_)) => "DatasetSome",
                        Codec::Dataset(None) => "DatasetNone",
                    };
                    format!("{}|{}|{:?}|{}|{}|{}|{}|{}|{}|{}|{}|{}|{}|{}|{}|{}", ts.uid(), ts.name().replace(' ', "_"), ts.endianness(), hex(&hdr),
                        ts.is_fully_supported(), ts.can_decode_all(), ts.can_decode_dataset(), ts.is_unsupported(), ts.is_unsupported_pixel_encapsulation(),
                        ts.is_encapsulated_pixel_data(), ts.decoder().is_some(), enc.is_some(), shape, ts.pixel_data_reader().is_some(),
                        ts.pixel_data_writer().is_some(), ts.is_codec_free())
                })
                .collect();
            v.sort();
            v.join(";")
        }
        // ts_get <uid-hex> -> uid of the entry returned by the registry lookup | NONE
        "ts_get" => {
            use dicom_encoding::transfer_syntax::TransferSyntaxIndex;
            use dicom_transfer_syntax_registry::TransferSyntaxRegistry;
            let uid = String::from_utf8(unhex(a[1])).unwrap();
            match TransferSyntaxRegistry.get(&uid) {
                Some(ts) => ts.uid().to_string(),
                None => "NONE".into(),
            }
        }
        _ => "BADCMD".into(),
    }
}
