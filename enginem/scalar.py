"""Engine M, scalar kernel mode: typed symbolic evaluation of loop-free numeric MIR functions with PATH MERGING.
Every symbolic branch is executed on both sides and the results are merged with `If`, so a whole function becomes ONE term and a
property is ONE solver query over all paths.  Integers are bit-vectors of their declared width, f64/f32 are IEEE-754 terms
(round-to-nearest-even, as rustc emits), `assert` terminators (overflow checks are on in the dump) are collected as panic conditions."""
import re
from z3 import *


class NotEncodable(Exception):
    pass


class StopPath(Exception):
    """raised by a contract to abandon the current path (the caller has recorded what it needs)"""
    pass


class Any(dict):
    """opaque aggregate: every field / dereference yields another opaque value"""
    def __missing__(self, k):
        v = Any()
        self[k] = v
        return v

    def get(self):
        return self


INT = {"u8": (8, False), "u16": (16, False), "u32": (32, False), "u64": (64, False), "usize": (64, False), "u128": (128, False),
       "i8": (8, True), "i16": (16, True), "i32": (32, True), "i64": (64, True), "isize": (64, True), "i128": (128, True)}


class Fn:
    pass


def parse(text):
    fns = {}
    for m in re.finditer(r"^fn (.+?)\((.*?)\) -> (.*?) \{\n(.*?)^\}", text, re.S | re.M):
        f = Fn()
        f.name, f.ptext, f.ret, body = m.group(1), m.group(2), m.group(3), m.group(4)
        f.types = {0: f.ret}
        for pm in re.finditer(r"_(\d+): ([^,]+(?:<[^>]*>)?[^,]*)", f.ptext):
            f.types[int(pm.group(1))] = pm.group(2).strip()
        for lm in re.finditer(r"^\s*let (?:mut )?_(\d+): (.*?);", body, re.M):
            f.types[int(lm.group(1))] = lm.group(2).strip()
        f.nparams = len(re.findall(r"_\d+: ", f.ptext))
        f.blocks = {}
        for bm in re.finditer(r"^    (bb\d+)(?: \(cleanup\))?: \{\n(.*?)^    \}", body, re.S | re.M):
            f.blocks[bm.group(1)] = [l.strip().rstrip(";") for l in bm.group(2).split("\n") if l.strip()]
        fns[f.name] = f
    for m in re.finditer(r"^const (.+?::promoted\[\d+\]): (.*?) = \{\n(.*?)^\}", text, re.S | re.M):
        f = Fn()
        f.name, f.ptext, f.ret, body = m.group(1), "", m.group(2), m.group(3)
        f.types = {0: f.ret}
        for lm in re.finditer(r"^\s*let (?:mut )?_(\d+): (.*?);", body, re.M):
            f.types[int(lm.group(1))] = lm.group(2).strip()
        f.nparams = 0
        f.blocks = {}
        for bm in re.finditer(r"^    (bb\d+)(?: \(cleanup\))?: \{\n(.*?)^    \}", body, re.S | re.M):
            f.blocks[bm.group(1)] = [l.strip().rstrip(";") for l in bm.group(2).split("\n") if l.strip()]
        fns[f.name] = f
    return fns


class Ref:
    def __init__(self, box, path=()):
        self.box, self.path = box, tuple(path)

    def get(self):
        v = self.box[0]
        for p in self.path:
            v = v[p]
        return v


class Machine:
    def __init__(self, mir_text, contracts=None, havoc=False):
        self.fns = parse(mir_text)
        self.contracts = contracts or {}
        self.havoc = havoc          # unknown callees return an unconstrained opaque value (over-approximation)
        self.nfresh = 0
        self.current = []           # stack of function names being executed (to resolve promoted constants)
        self.panics = []          # list of (condition under which a panic/assert failure happens, message)
        self.steps = 0

    def find(self, pat):
        c = [n for n in self.fns if re.search(pat, n)]
        if len(c) != 1:
            raise NotEncodable("function pattern %r matches %d functions" % (pat, len(c)))
        return c[0]

    # ------------------------------------------------------------------ operands
    def const(self, c):
        m = re.fullmatch(r"(-?[\d.]+(?:[eE][-+]?\d+)?)f(64|32)", c)
        if m:
            return FPVal(float(m.group(1)), Float64() if m.group(2) == "64" else Float32())
        m = re.fullmatch(r"(-?\d+)_(\w+)", c)
        if m and m.group(2) in INT:
            return BitVecVal(int(m.group(1)), INT[m.group(2)][0])
        if c in ("true", "false"):
            return BoolVal(c == "true")
        mp = re.search(r"promoted\[(\d+)\]$", c)
        if mp and self.current:
            pname = self.current[-1] + "::promoted[%s]" % mp.group(1)
            if pname in self.fns:
                return self.call(pname, [])
        m = re.fullmatch(r"f64::(MAX|MIN)", c)
        if m:
            return FPVal(1.7976931348623157e308 if m.group(1) == "MAX" else -1.7976931348623157e308, Float64())
        return ("const", c)

    def place(self, fr, s):
        s = s.strip()
        m = re.fullmatch(r"_(\d+)", s)
        if m:
            return (int(m.group(1)), [])
        if s.startswith("(*") and s.endswith(")"):
            b, p = self.place(fr, s[2:-1])
            return (b, p + ["*"])
        if s.startswith("(") and s.endswith(")"):
            inner = s[1:-1]
            md = re.fullmatch(r"(.*) as (\w+)", inner)
            if md and not re.search(r"\.\d+: [^()]*$", inner):
                b, p = self.place(fr, md.group(1))
                return (b, p + [md.group(2)])          # enum downcast: variants are keyed by name
            depth = 0
            for i, ch in enumerate(inner):
                if ch == "(":
                    depth += 1
                if ch == ")":
                    depth -= 1
                if depth == 0 and ch == "." and re.match(r"\.\d+: ", inner[i:]):
                    idx = int(re.match(r"\.(\d+): ", inner[i:]).group(1))
                    b, p = self.place(fr, inner[:i])
                    return (b, p + [idx])
        raise NotEncodable("place " + s)

    def read(self, fr, s):
        b, path = self.place(fr, s)
        v = fr[b]
        for p in path:
            if p == "*":
                v = v.get()
            elif isinstance(v, dict) and p not in v and not isinstance(v, Any):
                if not self.havoc:
                    raise NotEncodable("field %r of an aggregate that does not have it" % (p,))
                v[p] = Any()
                v = v[p]
            else:
                v = v[p]
        return v

    def write(self, fr, s, val):
        b, path = self.place(fr, s)
        if not path:
            fr[b] = val
            return
        v = fr.get(b)
        if v is None:
            v = fr[b] = {}
        for p in path[:-1]:
            if p == "*":
                v = v.get()
            else:
                if p not in v:
                    v[p] = {}
                v = v[p]
        last = path[-1]
        if last == "*":
            raise NotEncodable("write through reference")
        v[last] = val

    def operand(self, fr, s):
        s = re.sub(r"^(no_retag )?(move|copy) ", "", s.strip())
        if s.startswith("const "):
            return self.const(s[6:])
        return self.read(fr, s)

    # ------------------------------------------------------------------ rvalues
    def binop(self, op, a, b, signed):
        if is_fp(a):
            rm = RNE()
            t = {"Add": lambda: fpAdd(rm, a, b), "Sub": lambda: fpSub(rm, a, b), "Mul": lambda: fpMul(rm, a, b), "Div": lambda: fpDiv(rm, a, b),
                 "Le": lambda: fpLEQ(a, b), "Lt": lambda: fpLT(a, b), "Ge": lambda: fpGEQ(a, b), "Gt": lambda: fpGT(a, b),
                 "Eq": lambda: fpEQ(a, b), "Ne": lambda: Not(fpEQ(a, b))}
            if op not in t:
                raise NotEncodable("fp op " + op)
            return t[op]()
        if is_bool(a):
            return {"Eq": lambda: a == b, "Ne": lambda: a != b, "BitAnd": lambda: And(a, b), "BitOr": lambda: Or(a, b), "BitXor": lambda: Xor(a, b)}[op]()
        if op in ("Shl", "Shr") and b.size() != a.size():
            b = ZeroExt(a.size() - b.size(), b) if b.size() < a.size() else Extract(a.size() - 1, 0, b)
        t = {"Add": lambda: a + b, "Sub": lambda: a - b, "Mul": lambda: a * b,
             "Div": lambda: (a / b) if signed else UDiv(a, b), "Rem": lambda: SRem(a, b) if signed else URem(a, b),
             "BitAnd": lambda: a & b, "BitOr": lambda: a | b, "BitXor": lambda: a ^ b, "Shl": lambda: a << b,
             "Shr": lambda: (a >> b) if signed else LShR(a, b),
             "Eq": lambda: a == b, "Ne": lambda: a != b,
             "Lt": lambda: (a < b) if signed else ULT(a, b), "Le": lambda: (a <= b) if signed else ULE(a, b),
             "Gt": lambda: (a > b) if signed else UGT(a, b), "Ge": lambda: (a >= b) if signed else UGE(a, b)}
        if op not in t:
            raise NotEncodable("int op " + op)
        return t[op]()

    def rvalue(self, f, fr, dst, rv):
        rv = rv.strip()
        dty = None
        m = re.fullmatch(r"_(\d+)", dst.strip())
        if m:
            dty = f.types.get(int(m.group(1)))
        if rv.startswith("&"):
            body = re.sub(r"^&(mut |raw const |raw mut )?", "", rv)
            b, path = self.place(fr, body)
            holder = [None]
            mach, frame = self, fr

            class PRef:
                def get(self_inner):
                    return mach.read(frame, body)
            return PRef()
        m = re.fullmatch(r"(\w+)\((.*)\)", rv)
        if m and m.group(1) in ("Add", "Sub", "Mul", "Div", "Rem", "BitAnd", "BitOr", "BitXor", "Shl", "Shr", "Eq", "Ne", "Lt", "Le", "Gt", "Ge",
                                 "AddWithOverflow", "SubWithOverflow", "MulWithOverflow", "AddUnchecked", "SubUnchecked", "MulUnchecked", "ShlUnchecked", "ShrUnchecked"):
            op = m.group(1)
            parts = split_top(m.group(2))
            a, b = self.operand(fr, parts[0]), self.operand(fr, parts[1])
            signed = self.signed_of(f, fr, parts[0], a)
            if op.endswith("WithOverflow"):
                base = op[:-12]
                w = a.size()
                if signed:
                    ea, eb = SignExt(w, a), SignExt(w, b)
                else:
                    ea, eb = ZeroExt(w, a), ZeroExt(w, b)
                wide = {"Add": ea + eb, "Sub": ea - eb, "Mul": ea * eb}[base]
                res = Extract(w - 1, 0, wide)
                back = SignExt(w, res) if signed else ZeroExt(w, res)
                return {0: res, 1: back != wide}
            if op.endswith("Unchecked"):
                op = op[:-9]
            return self.binop(op, a, b, signed)
        m = re.fullmatch(r"(Not|Neg)\((.*)\)", rv)
        if m:
            v = self.operand(fr, m.group(2))
            if m.group(1) == "Not":
                return Not(v) if is_bool(v) else ~v
            return fpNeg(v) if is_fp(v) else -v
        m = re.fullmatch(r"(.*) as .* \(PointerCoercion.*\)", rv)
        if m:
            return self.operand(fr, m.group(1))
        m = re.fullmatch(r"(.*) as (\w+) \((\w+)\)", rv)
        if m:
            v = self.operand(fr, m.group(1))
            ty, kind = m.group(2), m.group(3)
            signed = self.signed_of(f, fr, m.group(1), v)
            if kind == "IntToFloat":
                sort = Float64() if ty == "f64" else Float32()
                return fpSignedToFP(RNE(), v, sort) if signed else fpUnsignedToFP(RNE(), v, sort)
            if kind == "IntToInt":
                if is_bool(v):
                    v = If(v, BitVecVal(1, 8), BitVecVal(0, 8))
                    signed = False
                w = INT[ty][0]
                if w == v.size():
                    return v
                if w < v.size():
                    return Extract(w - 1, 0, v)
                return SignExt(w - v.size(), v) if signed else ZeroExt(w - v.size(), v)
            if kind == "FloatToInt":
                w, s = INT[ty]
                # Rust `as`: saturating, NaN -> 0
                lo, hi = (-(1 << (w - 1)), (1 << (w - 1)) - 1) if s else (0, (1 << w) - 1)
                sort = v.sort()
                t = fpToSBV(RTZ(), v, BitVecSort(w)) if s else fpToUBV(RTZ(), v, BitVecSort(w))
                return If(fpIsNaN(v), BitVecVal(0, w), If(fpLEQ(v, FPVal(float(lo), sort)), BitVecVal(lo, w), If(fpGEQ(v, FPVal(float(hi), sort)), BitVecVal(hi, w), t)))
            if kind == "FloatToFloat":
                return fpToFP(RNE(), v, Float64() if ty == "f64" else Float32())
            raise NotEncodable("cast " + kind)
        m = re.fullmatch(r"discriminant\((.*)\)", rv)
        if m:
            v = self.read(fr, m.group(1))
            if isinstance(v, dict) and "disc" not in v:
                if not (self.havoc or isinstance(v, Any)):
                    raise NotEncodable("discriminant of an aggregate without one")
                self.nfresh += 1
                v["disc"] = BitVec("havoc%d" % self.nfresh, 64)
            return v["disc"] if isinstance(v, dict) else v
        if rv.startswith("[") and rv.endswith("]"):
            inner = rv[1:-1]
            mrep = re.fullmatch(r"(.*); (\d+)", inner)
            if mrep:
                v = self.operand(fr, mrep.group(1))
                return {i: v for i in range(int(mrep.group(2)))}
            return {i: self.operand(fr, p) for i, p in enumerate(split_top(inner))}
        m = re.fullmatch(r"(?:std::option::)?Option::<.*>::Some\((.*)\)", rv)
        if m:
            return {"disc": BitVecVal(1, 64), "Some": {0: self.operand(fr, m.group(1))}}
        if re.fullmatch(r"(?:std::option::)?Option::<.*>::None", rv):
            return {"disc": BitVecVal(0, 64)}
        m = re.fullmatch(r"(?:std::result::)?Result::<.*>::(Ok|Err)\((.*)\)", rv)
        if m:
            return {"disc": BitVecVal(0 if m.group(1) == "Ok" else 1, 64), m.group(1): {0: self.operand(fr, m.group(2))}}
        m = re.fullmatch(r"\((.*),\)", rv)
        if m:
            return {0: self.operand(fr, m.group(1))}
        m = re.fullmatch(r"\((.*)\)", rv)
        if m and "," in m.group(1) and not re.match(r"\(\*?_|\(\(", rv):
            return {i: self.operand(fr, p) for i, p in enumerate(split_top(m.group(1)))}
        m = re.fullmatch(r"([\w:<>, ']+?) \{ (.*) \}", rv)
        if m and not rv.startswith("{closure"):
            return {i: self.operand(fr, part.split(":", 1)[1]) for i, part in enumerate(split_top(m.group(2)))}
        m = re.fullmatch(r"\{closure@[^}]*\} \{ (.*) \}", rv)
        if m:
            d = {i: self.operand(fr, part.split(":", 1)[1]) for i, part in enumerate(split_top(m.group(1)))}
            d["closure"] = re.match(r"\{closure@([^}]*)\}", rv).group(1)
            return d
        return self.operand(fr, rv)

    def signed_of(self, f, fr, opnd, val):
        s = re.sub(r"^(no_retag )?(move|copy) ", "", opnd.strip())
        m = re.fullmatch(r"const -?\d+_(\w+)", s)
        if m:
            return INT.get(m.group(1), (0, False))[1]
        m = re.fullmatch(r"_(\d+)", s)
        if m:
            ty = f.types.get(int(m.group(1)), "")
            return INT.get(ty, (0, False))[1]
        m = re.search(r": (\w+)\)$", s)
        if m:
            return INT.get(m.group(1), (0, False))[1]
        return False

    # ------------------------------------------------------------------ execution with merging
    def call(self, name, args, pc=None):
        """returns the merged return value of fn `name`"""
        f = self.fns[name]
        fr = {i + 1: a for i, a in enumerate(args)}
        self.current.append(name)
        try:
            return self.exec(f, fr, "bb0", pc if pc is not None else BoolVal(True))
        finally:
            self.current.pop()

    def exec(self, f, fr, bb, pc):
        while True:
            self.steps += 1
            if self.steps > 20000:
                raise NotEncodable("step limit")
            nxt = None
            for st in f.blocks[bb]:
                if st.startswith(("StorageLive", "StorageDead", "nop", "FakeRead", "PlaceMention", "Retag", "debug ")):
                    continue
                if st == "return":
                    return fr.get(0)
                if st == "unreachable":
                    return None
                m = re.fullmatch(r"goto -> (bb\d+)", st)
                if m:
                    nxt = m.group(1)
                    break
                m = re.fullmatch(r"drop\(.*\) -> \[return: (bb\d+).*\]", st)
                if m:
                    nxt = m.group(1)
                    break
                m = re.fullmatch(r"assert\((!?)(.*?), \".*\) -> \[success: (bb\d+).*\]", st)
                if m:
                    c = self.operand(fr, m.group(2))
                    ok = Not(c) if m.group(1) else c
                    self.panics.append((simplify(And(pc, Not(ok))), st[:120]))
                    pc = And(pc, ok)
                    nxt = m.group(3)
                    break
                m = re.fullmatch(r"(?:_\d+ = )?(?:core::panicking::)?panic\w*(?:::<.*>)?\(.*\) -> .*", st)
                if m:
                    self.panics.append((simplify(pc), st[:120]))
                    return None
                m = re.fullmatch(r"switchInt\((.*)\) -> \[(.*)\]", st)
                if m:
                    v = self.operand(fr, m.group(1))
                    if isinstance(v, Any) or v is None:
                        self.nfresh += 1
                        v = BitVec("havoc%d" % self.nfresh, 64)
                    targets = [t.split(": ") for t in split_top(m.group(2))]
                    otherwise = dict((k, t) for k, t in targets).get("otherwise")
                    cases = [(int(k), t) for k, t in targets if k != "otherwise"]
                    if is_bool(v):
                        v = If(v, BitVecVal(1, 8), BitVecVal(0, 8))
                    vs = simplify(v)
                    if is_bv_value(vs):
                        val = vs.as_long()
                        nxt = next((t for k, t in cases if k == val), otherwise)
                        break
                    # symbolic: run every feasible successor and merge
                    results = []
                    rest = BoolVal(True)
                    for k, t in cases:
                        c = vs == BitVecVal(k, vs.size())
                        try:
                            results.append((c, self.exec(f, self.copy_frame(fr), t, And(pc, c))))
                        except StopPath:
                            pass
                        rest = And(rest, Not(c))
                    if otherwise and f.blocks[otherwise] != ["unreachable"]:
                        try:
                            results.append((rest, self.exec(f, self.copy_frame(fr), otherwise, And(pc, rest))))
                        except StopPath:
                            pass
                    return self.merge(results)
                m = re.fullmatch(r"(.+?) = (.+\)) -> \[return: (bb\d+).*\]", st)
                if m:
                    dst, body, nxt = m.group(1), m.group(2), m.group(3)
                    depth = 0
                    for i in range(len(body) - 1, -1, -1):
                        if body[i] == ")":
                            depth += 1
                        elif body[i] == "(":
                            depth -= 1
                            if depth == 0:
                                callee, argtxt = body[:i].strip(), body[i + 1:-1]
                                break
                    argv = []
                    for a in split_top(argtxt):
                        try:
                            argv.append(self.operand(fr, a))
                        except (NotEncodable, KeyError, AttributeError, TypeError):
                            if not self.havoc:
                                raise
                            argv.append(Any())
                    self.write(fr, dst, self.do_call(callee, argv, pc))
                    break
                m = re.fullmatch(r"(.+?) = (.+)", st)
                if m:
                    try:
                        val = self.rvalue(f, fr, m.group(1), m.group(2))
                    except (NotEncodable, KeyError, AttributeError, TypeError):
                        if not self.havoc:
                            raise
                        val = Any()          # over-approximation: the value is unconstrained
                    self.write(fr, m.group(1), val)
                    continue
                raise NotEncodable("statement " + st)
            if nxt is None:
                raise NotEncodable("block %s of %s falls through" % (bb, f.name))
            bb = nxt

    def do_call(self, callee, argv, pc):
        key = re.sub(r"::<'_>", "", callee)
        if key in self.fns:
            return self.call(key, argv, pc)
        for pat, fn in self.contracts.items():
            if re.search(pat, callee):
                return fn(self, argv, pc)
        m = re.fullmatch(r"(?:\w+::)*(\w+)(?:::<[^>]*>)?::(\w+)", callee)
        if m:      # inherent method written as Type::method: resolve through the impl block that defines it for that receiver type
            ty, meth = m.group(1), m.group(2)
            cands = [n for n, f in self.fns.items() if n.endswith("::" + meth) and "<impl at" in n and re.match(r"_1: &?(mut )?(?:\w+::)*%s\b" % re.escape(ty), f.ptext)]
            if len(cands) == 1:
                return self.call(cands[0], argv, pc)
        mo = re.fullmatch(r"(?:std::option::)?Option::<.*>::(as_ref|as_deref|is_some|is_none)", callee)
        if mo:      # Option as {"disc": 0 None | 1 Some, 0: payload}
            o = argv[0]
            while hasattr(o, "get") and not isinstance(o, dict): o = o.get()
            if mo.group(1) in ("as_ref", "as_deref"): return o
            dsc = o["disc"]
            return (dsc != 0) if mo.group(1) == "is_some" else (dsc == 0)
        if re.search(r"f64::<impl f64>::max$", callee) or re.search(r"f64>::max$", callee):
            a, b = argv
            return If(fpIsNaN(a), b, If(fpIsNaN(b), a, fpMax(a, b)))
        if re.search(r"f64::<impl f64>::min$", callee):
            a, b = argv
            return If(fpIsNaN(a), b, If(fpIsNaN(b), a, fpMin(a, b)))
        if re.search(r"<impl (usize|u16|u32|u64)>::div_ceil$", callee):
            a, b = argv
            self.panics.append((simplify(And(pc, b == 0)), "attempt to divide by zero (div_ceil)"))
            q = UDiv(a, b)
            return If(URem(a, b) != 0, q + 1, q)
        if re.search(r"<impl f64>::clamp$", callee):
            x, lo, hi = argv
            self.panics.append((simplify(And(pc, Not(fpLEQ(lo, hi)))), "f64::clamp: min > max or a NaN bound"))
            return If(fpLT(x, lo), lo, If(fpGT(x, hi), hi, x))
        if re.search(r"<impl f64>::abs$", callee):
            return fpAbs(argv[0])
        if re.search(r"<impl f64>::exp$", callee):
            return EXP(argv[0])
        if re.search(r"as Fn<\(f64,\)>>::call$", callee):
            clo, tup = argv
            clo = clo.get() if hasattr(clo, "get") and not isinstance(clo, dict) else clo
            if callable(clo):
                return clo(tup[0], pc)
            name = next(n for n in self.fns if "{closure#" in n and ("{closure@%s}" % clo["closure"]) in self.fns[n].ptext)
            box = clo

            class R:
                def get(s):
                    return box
            return self.call(name, [R(), tup[0]], pc)
        if self.havoc:
            self.nfresh += 1
            ret = None
            return Any({"havoc": callee})
        raise NotEncodable("no contract for " + callee)

    def copy_frame(self, fr):
        def cp(v):
            if isinstance(v, dict):
                return {k: cp(x) for k, x in v.items()}
            return v
        return {k: cp(v) for k, v in fr.items()}

    def merge(self, results):
        results = [(c, r) for c, r in results if r is not None]
        if not results:
            return None
        out = results[-1][1]
        for c, r in reversed(results[:-1]):
            out = self.ite(c, r, out)
        return out

    def ite(self, c, a, b):
        if not isinstance(a, dict) and not isinstance(b, dict) and hasattr(a, "get") and hasattr(b, "get"):
            va, vb = a.get(), b.get()          # references: merge what they point to (read-only use)
            merged = self.ite(c, va, vb)

            class MRef:
                def get(self_inner):
                    return merged
            return MRef()
        if isinstance(a, dict) and isinstance(b, dict):
            out = {}
            for k in list(a.keys()) + [k for k in b.keys() if k not in a]:
                out[k] = self.ite(c, a[k], b[k]) if (k in a and k in b) else (a[k] if k in a else b[k])
            return out
        if isinstance(a, (str, tuple)) or isinstance(b, (str, tuple)):
            return a if a == b else ("merge", c, a, b)
        return If(c, a, b)


EXP = Function("exp", Float64(), Float64())


def split_top(s, sep=","):
    out, depth, cur = [], 0, ""
    for ch in s:
        if ch in "([{<":
            depth += 1
        if ch in ")]}>":
            depth -= 1
        if ch == sep and depth == 0:
            out.append(cur.strip())
            cur = ""
        else:
            cur += ch
    if cur.strip():
        out.append(cur.strip())
    return out
