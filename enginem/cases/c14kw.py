"""C14 (keyword clause) — DataDictionary::parse_tag resolves every text that the dictionary knows as a keyword to that keyword's tag (unless
the text is itself one of the numeric tag forms), and every numeric tag text to its tag.
Encoded (container mode): MIR of dicom_core::dictionary::DataDictionary::parse_tag (provided method, + closures) and of <Tag as
FromStr>::from_str with everything it calls. The text has a concrete length per instance (4..10) and SYMBOLIC characters (letters and
digits); `by_name` is a contract: the dictionary knows the text (a solver choice) with some symbolic tag."""
import os, re
from z3 import *
import core, mirdump, native

d = core._d


def contracts(c, args, ctx):
    if re.fullmatch(r"<Self as DataDictionary>::by_name|<D as DataDictionary>::by_name", c):
        if not ctx.branch(Bool("dictionary_knows_the_text")): return core.Enum("None", [])
        return core.Enum("Some", [("entry", core.Struct([BitVec("kw_g", 16), BitVec("kw_e", 16)]))])
    if re.search(r"as DataDictionaryEntry>::tag$", c):
        return d(args[0])[1]
    if re.fullmatch(r"core::str::<impl str>::parse::<(dicom_core::)?Tag>|core::str::<impl str>::parse::<header::Tag>", c):
        return core.run_fn(next(n for n in core.FNS if n.endswith("::from_str") and "header" in n and core.FNS[n].ret.startswith(("std::result::Result<Tag", "std::result::Result<header::Tag", "Result<Tag"))), [args[0]], ctx)
    if c == "core::str::<impl str>::is_char_boundary":
        return core.concrete_index(args[1]) <= len(d(args[0]).b)          # the instances' characters are ASCII
    if re.fullmatch(r"<Option<&u8> as PartialEq>::(eq|ne)", c):
        a, b = d(args[0]), d(args[1])
        if a.variant != b.variant: r = False
        elif a.variant == "None": r = True
        else:
            x, y = d(a.f[0]), d(b.f[0])
            r = (x == y) if isinstance(x, int) and isinstance(y, int) else ctx.branch(x == y)
        return r if c.endswith("::eq") else (not r)
    if re.fullmatch(r"core::slice::<impl \[u8\]>::get::<(std::ops::)?RangeTo<usize>>", c):
        b = d(args[0]).b; rng = args[1]; end = core.concrete_index(rng.f[0] if isinstance(rng, core.Struct) else rng[0])
        return core.Enum("Some", [core.Str(b[:end])]) if end <= len(b) else core.Enum("None", [])
    if c in ("core::num::<impl u8>::is_ascii_hexdigit", "u8::is_ascii_hexdigit"):
        x = d(args[0])
        if isinstance(x, int): return chr(x) in "0123456789abcdefABCDEF"
        return Or(And(UGE(x, 0x30), ULE(x, 0x39)), And(UGE(x, 0x41), ULE(x, 0x46)), And(UGE(x, 0x61), ULE(x, 0x66)))
    if c == "core::str::<impl str>::chars":
        return core.SliceIter([x if isinstance(x, int) else ZeroExt(24, x) for x in d(args[0]).b])
    if c in ("core::char::methods::<impl char>::is_ascii_hexdigit", "char::methods::<impl char>::is_ascii_hexdigit", "char::is_ascii_hexdigit"):
        x = d(args[0])
        if isinstance(x, int): return chr(x) in "0123456789abcdefABCDEF"
        return Or(And(UGE(x, 0x30), ULE(x, 0x39)), And(UGE(x, 0x41), ULE(x, 0x46)), And(UGE(x, 0x61), ULE(x, 0x66)))
    if c == "core::str::<impl str>::split_at":
        b = d(args[0]).b; i = core.concrete_index(args[1])
        if i > len(b): raise core.ReachablePanic("str::split_at past the end")
        return core.Struct([core.Str(b[:i]), core.Str(b[i:])])
    m = re.fullmatch(r"core::num::<impl u(16|32)>::from_str_radix", c)
    if m:
        b = d(args[0]).b; w = int(m.group(1))
        if core.concrete_index(args[1]) != 16 or not b or len(b) > w // 4: return core.Enum("Err", [("opaque", "ParseIntError")])
        hexd = lambda x: Or(And(UGE(x, 0x30), ULE(x, 0x39)), And(UGE(x, 0x41), ULE(x, 0x46)), And(UGE(x, 0x61), ULE(x, 0x66)))
        bs = [x if not isinstance(x, int) else BitVecVal(x, 8) for x in b]
        if not ctx.branch(And([hexd(x) for x in bs])): return core.Enum("Err", [("opaque", "ParseIntError")])
        val = BitVecVal(0, w)
        for x in bs:
            dig = If(ULE(x, 0x39), x - 0x30, If(ULE(x, 0x46), x - 0x37, x - 0x57))
            val = val * 16 + ZeroExt(w - 8, dig)
        return core.Enum("Ok", [val])
    return NotImplemented


def run(rep, tier, seed, known, part):
    pc_, _ = mirdump.dump("dicom-core")
    core.load([pc_])
    os.remove(pc_)
    core.EXTRA_CONTRACTS[:] = [contracts]
    F = next(n for n in core.FNS if n.endswith("DataDictionary::parse_tag"))
    rep.functions += ["dicom_core::dictionary::DataDictionary::parse_tag (+ closures)", "<dicom_core::header::Tag as FromStr>::from_str (+ parse_tag_part)"]
    nat = native.Native()
    src = open(os.path.join(os.environ.get("VERIF_REPO", "/repo"), "dictionary-std/src/tags.rs")).read()
    keywords = sorted(set(re.findall(r'alias: "([A-Za-z0-9_]+)"', src)))
    try:
        for n in ((4, 5, 8, 9) if tier == "quick" else (4, 5, 6, 7, 8, 9, 10, 11)):
            box = {}

            def build(ctx, n=n):
                bs = [BitVec("c%d" % k, 8) for k in range(n)]
                for b in bs: ctx.pc.append(Or(And(UGE(b, 0x30), ULE(b, 0x39)), And(UGE(b, 0x41), ULE(b, 0x5A)), And(UGE(b, 0x61), ULE(b, 0x7A))))      # letters and digits: what keywords are made of
                text = core.Str(bs)
                core.SELF_TYPES.append("D")
                try: r = core.run_fn(F, [core.Ref(core.Cell(core.Struct([]))), core.Ref(core.Cell(text))], ctx)
                finally: core.SELF_TYPES.pop()
                # is the text one of the numeric forms?  (only GGGGEEEE is possible with letters and digits: 8 hex digits)
                hexd = lambda b: Or(And(UGE(b, 0x30), ULE(b, 0x39)), And(UGE(b, 0x41), ULE(b, 0x46)), And(UGE(b, 0x61), ULE(b, 0x66)))
                numeric = ctx.branch(And([hexd(b) for b in bs])) if n == 8 else False
                knows = ctx.branch(Bool("dictionary_knows_the_text"))
                box["inst"] = (numeric, knows)
                some = r.variant == "Some"
                if numeric:
                    box["problem"] = "a text of 8 hex digits does not resolve to a tag"
                    return BoolVal(not some)
                if knows:
                    if not some:
                        box["problem"] = "a keyword the dictionary knows does not resolve"; return BoolVal(True)
                    t = d(r.f[0])
                    box["problem"] = "a keyword resolves to another tag than the dictionary gives"
                    return Or(t.f[0] != BitVec("kw_g", 16), t.f[1] != BitVec("kw_e", 16))
                box["problem"] = "a text that is neither numeric nor a known keyword resolves to a tag"
                return BoolVal(some)

            res = core.explore(build, max_paths=20000)
            rep.nontrivial += res["paths"]
            name = "parse_tag on every text of %d letters / digits: numeric forms give their tag, keywords the dictionary knows give the dictionary's tag, anything else nothing" % n
            if res["violation"]:
                model = res["violation"][0]
                text = bytes(model.eval(BitVec("c%d" % k, 8), model_completion=True).as_long() for k in range(n)).decode()
                # replay: a real keyword of the standard dictionary with the same first characters class is needed; ask the oracle for one that starts like the model's text
                # replay on the real dictionary: all its keywords of that length (the model's text itself is usually not a keyword)
                same_len = [k for k in keywords if len(k) == n] or keywords
                real = nat.ask("parse_kw", ",".join(keywords))
                rp = rep.replay_file("c14_keyword_%d" % n, "// engine=M case=c14kw\n// model text: %s ; %s\n// native: parse_kw %s -> %s   (keywords of the standard dictionary starting with the same 4 characters class that do not resolve)\n" % (text, box.get("problem"), text, real))
                if real.startswith("UNRESOLVED"):
                    rep.violations.append(("keyword resolution: %s (model text %r); real standard dictionary: %s" % (box.get("problem"), text, real), rp))
                    rep.obligation(name, "violated", {"text": text, "native": real})
                else:
                    rep.inconclusive.append("C14 keyword counterexample does not reproduce natively: %r (%s) -> %s" % (text, box.get("problem"), real))
                    rep.obligation(name, "inconclusive", {"text": text, "native": real})
            else:
                rep.validated += 1
                rep.obligation(name, "holds", {"paths": res["paths"]})
        real = nat.ask("parse_kw", ",".join(keywords))
        if not real.startswith("ALLRESOLVE"): rep.inconclusive.append("native: some keyword of the standard dictionary does not resolve through parse_tag: %s" % real)
    finally:
        nat.close()
        core.EXTRA_CONTRACTS[:] = []
