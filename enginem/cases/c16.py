"""C16 — every registered transfer syntax is described consistently.
Encoded: (scalar mode) MIR of the capability predicates of dicom_encoding::transfer_syntax::TransferSyntax over a SYMBOLIC codec shape;
(container mode) MIR of TransferSyntaxRegistryImpl::get + its trimming closure over the registry contents dumped from the real registry
(default feature set and native+deflate), with symbolic padding bytes."""
import os, re
from z3 import *
import core, mirdump, native, scalar


class R:
    def __init__(self, v):
        self.v = v

    def get(self):
        return self.v


def run(rep, tier, seed, known, part):
    pe, _ = mirdump.dump("dicom-encoding")
    text = open(pe).read()
    os.remove(pe)
    M = scalar.Machine(text)
    rep.functions += ["dicom_encoding::transfer_syntax::TransferSyntax::{is_fully_supported, is_codec_free, is_unsupported, is_encapsulated_pixel_data, "
                      "is_unsupported_pixel_encapsulation, can_decode_all, can_decode_dataset, pixel_data_reader, pixel_data_writer}",
                      "dicom_transfer_syntax_registry::TransferSyntaxRegistryImpl::get (+ trimming closure)"]
    # ---- symbolic codec shape: discriminant 0 None, 1 EncapsulatedPixelData(Option<R>, Option<W>), 2 Dataset(Option<D>)
    cd, rd, wd, dd = BitVecs("codec reader writer dataset", 64)
    shape = {4: {"disc": cd, "EncapsulatedPixelData": {0: {"disc": rd}, 1: {"disc": wd}}, "Dataset": {0: {"disc": dd}}}}
    dom = And(ULE(cd, 2), ULE(rd, 1), ULE(wd, 1), ULE(dd, 1))
    pred = {}
    for name in ("is_fully_supported", "is_codec_free", "is_unsupported", "is_encapsulated_pixel_data", "is_unsupported_pixel_encapsulation", "can_decode_all", "can_decode_dataset"):
        fn = next(n for n, f in M.fns.items() if n.endswith("::" + name) and "transfer_syntax::TransferSyntax<D, R, W>" in f.ptext)
        v = M.call(fn, [R(shape)])
        pred[name] = v if is_bool(v) else v != 0
    none, enc, ds = cd == 0, cd == 1, cd == 2
    has_r, has_w, has_d = And(enc, rd == 1), And(enc, wd == 1), And(ds, dd == 1)
    laws = [
        ("is_codec_free <=> no codec", pred["is_codec_free"] == none),
        ("is_encapsulated_pixel_data <=> pixel data codec shape", pred["is_encapsulated_pixel_data"] == enc),
        ("is_unsupported <=> data set codec required but absent", pred["is_unsupported"] == And(ds, Not(has_d))),
        ("can_decode_dataset <=> not is_unsupported", pred["can_decode_dataset"] == Not(pred["is_unsupported"])),
        ("can_decode_all <=> data sets decodable and (no pixel codec needed or a pixel decoder is offered)", pred["can_decode_all"] == And(pred["can_decode_dataset"], Or(Not(enc), has_r))),
        ("is_fully_supported <=> can_decode_all and (no pixel codec needed or a pixel encoder is offered)", pred["is_fully_supported"] == And(pred["can_decode_all"], Or(Not(enc), has_w))),
        ("is_unsupported_pixel_encapsulation <=> nothing offered for pixel data or data sets", pred["is_unsupported_pixel_encapsulation"] == Or(pred["is_unsupported"], And(enc, Not(has_r), Not(has_w)))),
    ]
    for name, law in laws:
        s = Solver()
        s.add(dom, Not(law))
        r = s.check()
        rep.evaluations += 1
        if r == unsat:
            rep.nontrivial += 1
            rep.obligation("capability predicates, every codec shape: " + name, "holds")
        else:
            m = s.model()
            shape_txt = "codec=%s reader=%s writer=%s dataset=%s" % tuple(m.eval(x, model_completion=True) for x in (cd, rd, wd, dd))
            rp = rep.replay_file("c16_predicates", "// engine=M case=c16\n// capability law violated for codec shape %s: %s\n" % (shape_txt, name))
            rep.violations.append(("capability predicate law '%s' fails for codec shape %s" % (name, shape_txt), rp))
            rep.obligation("capability predicates, every codec shape: " + name, "violated", {"shape": shape_txt})
    # ---- registry contents (real registry, two feature sets) and lookup with padding
    pr, _ = mirdump.dump("dicom-transfer-syntax-registry")
    core.load([pr])
    os.remove(pr)
    GET = next(n for n, f in core.FNS.items() if n.endswith("::get") and f.ptext.startswith("_1: &TransferSyntaxRegistryImpl, _2: U"))

    def contracts(c, args, ctx):
        if c == "<U as AsRef<str>>::as_ref":
            return args[0].get() if isinstance(args[0], core.Ref) else args[0]
        if "impl str>::trim_end_matches::<{closure@" in c:
            s_, clo = args
            b = list(s_.b)
            while b:
                r = core.run_fn(clo.fn, [clo, b[-1]], ctx)
                keep = ctx.branch(r) if not isinstance(r, bool) else r
                if not keep:
                    break
                b.pop()
            return core.Str(b)
        if c.endswith("char::methods::<impl char>::is_whitespace") or c.endswith("<impl char>::is_whitespace"):
            ch = args[0]
            return Or(ch == 0x20, And(UGE(ch, 9), ULE(ch, 13)), ch == 0x85, ch == 0xA0) if not isinstance(ch, int) else (ch in (0x20, 9, 10, 11, 12, 13, 0x85, 0xA0))
        if re.match(r"HashMap::<&str, .*>::get::<str>", c):
            m, key = args[0].get(), args[1]
            # concrete keys, possibly symbolic probe bytes: the probe equals a key iff same length and all bytes equal
            hits = []
            for k, v in m.items():
                kb = list(k.encode())
                if len(kb) == len(key.b):
                    hits.append((And([a == b for a, b in zip(key.b, kb)]) if kb else BoolVal(True), v))
            for cond, v in hits:
                if ctx.branch(cond):
                    return core.Enum("Some", [v])
            return core.Enum("None", [])
        return NotImplemented
    core.EXTRA_CONTRACTS[:] = [contracts]
    for variant in (("native",) if tier == "quick" and seed % 2 else ("native", "nativefull")):
        nat = native.Native(variant)
        rows = [r.split("|") for r in nat.ask("ts_dump").split(";")]
        uids = [r[0] for r in rows]
        facts = []
        if len(set(uids)) != len(uids):
            facts.append("duplicate UIDs in the registry")
        for r in rows:
            uid, name, endian, hdr, full, call, cds, unsup, unsuppix, encaps, hasdec, hasenc, shape_n, hasr, hasw, free = r
            implicit = hdr[8:12] != "5549"          # explicit encoders write the VR code "UI" after the tag
            big = hdr.startswith("0008")
            if implicit != (uid == "1.2.840.10008.1.2") and hasenc == "true":
                facts.append("%s: implicit VR flag wrong (header %s)" % (uid, hdr))
            if big != (uid == "1.2.840.10008.1.2.2") and hasenc == "true":
                facts.append("%s: byte order wrong (header %s)" % (uid, hdr))
            if (endian == "Big") != (uid == "1.2.840.10008.1.2.2"):
                facts.append("%s: endianness() says %s" % (uid, endian))
            if cds == "true" and not (hasdec == "true" and hasenc == "true"):
                facts.append("%s: data sets decodable but decoder/encoder missing" % uid)
            # capability queries agree with the codecs actually offered
            want_all = cds == "true" and (shape_n != "Encapsulated" or hasr == "true")
            want_full = want_all and (shape_n != "Encapsulated" or hasw == "true")
            if (call == "true") != want_all or (full == "true") != want_full or (encaps == "true") != (shape_n == "Encapsulated"):
                facts.append("%s: capability queries disagree with the offered codecs (%s)" % (uid, "|".join(r[4:])))
        name = "registry facts (%s feature set, %d entries): unique UIDs, only 1.2.840.10008.1.2 implicit, only ...1.2.2 big endian, decoder+encoder when decodable, queries agree with codecs" % (variant, len(rows))
        if facts:
            rp = rep.replay_file("c16_facts_" + variant, "// engine=M case=c16\n// native(%s): ts_dump\n// %s\n" % (variant, "\n// ".join(facts)))
            rep.violations.append(("; ".join(facts[:3]), rp))
            rep.obligation(name, "violated", {"facts": facts[:5]})
        else:
            rep.obligation(name, "holds")
        rep.evaluations += len(rows)
        # lookup with trailing padding: for every entry, any 0-2 trailing bytes drawn from {space, NUL} still find that entry
        reg = core.Struct([{u: u for u in uids}])
        p1, p2 = BitVecs("p1 p2", 8)
        bad_entries = []
        sel = uids if tier == "thorough" else [uids[(seed * 3 + k * 5) % len(uids)] for k in range(12)] + ["1.2.840.10008.1.2", "1.2.840.10008.1.2.1"]
        for uid in sorted(set(sel)):
            for pad in ([], [p1], [p1, p2]):
                def build(ctx, uid=uid, pad=pad):
                    for pb in pad:
                        ctx.pc.append(Or(pb == 0x20, pb == 0x00))
                    r = core.run_fn(GET, [core.Ref(core.Cell(reg)), core.Str(list(uid.encode()) + pad)], ctx)
                    return BoolVal(not (r.variant == "Some" and r.f[0] == uid))
                res = core.explore(build)
                rep.nontrivial += res["paths"]
                if res["violation"]:
                    model = res["violation"][0]
                    probe = uid.encode() + bytes(model.eval(pb, model_completion=True).as_long() for pb in pad)
                    real = nat.ask("ts_get", probe.hex())
                    if real != uid:
                        bad_entries.append((probe, real))
                    else:
                        rep.inconclusive.append("C16 lookup counterexample %r does not reproduce natively" % probe)
        name = "lookup(uid + 0-2 bytes of space/NUL padding) returns that transfer syntax (%s feature set, %d entries checked)" % (variant, len(set(sel)))
        if bad_entries:
            probe, real = bad_entries[0]
            rp = rep.replay_file("c16_get_" + variant, "// engine=M case=c16\n// native(%s): ts_get %s\n// returned %s\n" % (variant, probe.hex(), real))
            rep.violations.append(("registry lookup of %r returns %s" % (probe, real), rp))
            rep.obligation(name, "violated", {"probe": repr(probe), "native": real})
        else:
            # cross-check a few padded lookups natively
            for uid in sorted(set(sel))[:4]:
                for pad in (b"", b"\x00", b" ", b" \x00"):
                    rep.validated += 1
                    if nat.ask("ts_get", (uid.encode() + pad).hex()) != uid:
                        rep.inconclusive.append("native lookup of %r disagrees with the encoding" % (uid.encode() + pad))
            rep.obligation(name, "holds")
        nat.close()
    core.EXTRA_CONTRACTS[:] = []
