"""C17 — person names round-trip between components and text.
Encoded: MIR of PersonName::to_dicom_string (+closure) and PersonName::from_text (+5 closures), dicom-core."""
import os, time
from z3 import *
import core, mirdump, native


def hexs(bs):
    return "".join("%02x" % b for b in bs) if bs else "-"


def run(rep, tier, seed, known, part):
    path, ds = mirdump.dump("dicom-core")
    core.load([path])
    TO = next(n for n in core.FNS if n.endswith("::to_dicom_string") and "person_name" in n)
    FROM = next(n for n in core.FNS if n.endswith("::from_text") and "person_name" in n)
    rep.functions += ["dicom_core::value::person_name::PersonName::to_dicom_string (+closure)", "PersonName::from_text (+5 closures)"]
    nat = native.Native()
    if tier == "quick":
        lens_list = [(1, 1, 1, 1, 1), (2, 1, 2, 1, 2), (3, 3, 3, 3, 3)]
        lens_list.append(tuple(1 + ((seed >> (2 * i)) + i) % 3 for i in range(5)))
    else:
        import itertools
        lens_list = list(itertools.product((1, 2, 3), repeat=5))
    for lens in lens_list:
        pres = [Bool("p%d" % i) for i in range(5)]
        allb = []

        def build(ctx):
            comps = []
            del allb[:]
            for i, L in enumerate(lens):
                bs = [BitVec("c%d_%d" % (i, j), 8) for j in range(L)]
                allb.append(bs)
                for b in bs:
                    # the statement's precondition: no component/group separators; default repertoire graphic characters
                    ctx.pc += [b != ord("^"), b != ord("="), ULT(b, 0x7F), UGE(b, 0x20), b != ord("\\")]
                ctx.pc += [Not(core.is_ws(bs[0])), Not(core.is_ws(bs[-1]))]
                comps.append(core.Enum("Some", [core.Str(bs)], sym_some=pres[i]))
            pn = core.Struct(comps)      # field order in MIR: prefix family middle given suffix
            text = core.run_fn(TO, [core.Ref(core.Cell(pn))], ctx)
            ctx.text = text
            back = core.run_fn(FROM, [core.Str(list(text.b))], ctx)
            ctx.back = back
            diffs = []
            for i in range(5):
                o = back.f[i]
                if o.variant == "None":
                    diffs.append(pres[i])
                else:
                    sb = o.f[0].b
                    if len(sb) != lens[i]:
                        diffs.append(BoolVal(True))
                    else:
                        diffs.append(Or(Not(pres[i]), Or([a != b for a, b in zip(sb, comps[i].f[0].b)])))
            # no trailing '^' in the text
            if text.b:
                last = text.b[-1]
                diffs.append(last == ord("^") if not isinstance(last, int) else BoolVal(last == ord("^")))
            return Or(diffs)

        res = core.explore(build)
        name = "PersonName roundtrip, component lengths %s, 32 presence combinations symbolic" % (lens,)

        def native_cmd(model):
            words = []
            for i in range(5):
                if is_true(model.eval(pres[i], model_completion=True)):
                    words.append(hexs([model.eval(b, model_completion=True).as_long() for b in allb[i]]))
                else:
                    words.append("~")
            return words

        # translator validation on up to 6 paths: encoding's text == real text
        bad = []
        for model, ctx in res["witnesses"][:: max(1, len(res["witnesses"]) // 6)]:
            words = native_cmd(model)
            real = nat.ask("pn", *words).split()
            enc_text = hexs([b if isinstance(b, int) else model.eval(b, model_completion=True).as_long() for b in ctx.text.b])
            rep.validated += 1
            if real[0] != enc_text:
                bad.append("components %s: encoding prints %s, real to_dicom_string prints %s" % (words, enc_text, real[0]))
            if real[1:] != words:
                bad.append("components %s do not round-trip natively (%s) although the encoding says they do" % (words, real[1:]))
        if bad:
            rep.inconclusive.append("encoding disagrees with native execution: " + "; ".join(bad[:2]))
        rep.nontrivial += res["paths"]
        if res["violation"]:
            model, pidx, ctx = res["violation"]
            words = native_cmd(model)
            real = nat.ask("pn", *words).split()
            text = "// engine=M case=c17\n// native: pn %s\n// real answer (text, parsed components): %s\n" % (" ".join(words), " ".join(real))
            rp = rep.replay_file("c17_" + "".join(map(str, lens)), text)
            if real[1:] != words or real[0].endswith("5e"):
                rep.violations.append(("person name components %s come back as %s (text %s)" % (words, real[1:], real[0]), rp))
                rep.obligation(name, "violated", {"input": words, "native": real})
            else:
                rep.inconclusive.append("C17 counterexample %s does not reproduce natively" % words)
                rep.obligation(name, "inconclusive", {"input": words})
        else:
            rep.obligation(name, "holds", {"paths": res["paths"], "solver_s": round(res["time"], 1)})
    nat.close()
    os.remove(path)
