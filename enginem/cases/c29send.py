"""C29 (send-size limit) — encode_pdu lets a PDU through only if the encoded PDU is no longer than the peer's maximum PDU length.
Encoded (container mode): MIR of dicom_ul::association::encode_pdu and of write_pdu (P-DATA-TF arm with its closures, write_chunk_u32);
P-DATA PDUs of concrete shape (number of PDVs and payload lengths per instance) with symbolic bytes and a SYMBOLIC peer maximum."""
import os, re
from z3 import *
import core, mirdump, native
from cases import c25rq

d = core._d


def run(rep, tier, seed, known, part):
    pu, _ = mirdump.dump("dicom-ul")
    core.load([pu])
    os.remove(pu)
    core.EXTRA_CONTRACTS[:] = [c25rq.contracts]
    core.DISC.update({"Unknown": 0, "AssociationRQ": 1, "AssociationAC": 2, "AssociationRJ": 3, "PData": 4, "ReleaseRQ": 5, "ReleaseRP": 6, "AbortRQ": 7, "Command": 0, "Data": 1})
    ENC = next((n for n in core.FNS if n == "encode_pdu" or n.endswith("::encode_pdu")), None)
    if ENC is None:
        raise core.NotEncodable("dicom_ul::association::encode_pdu not found in the MIR")
    rep.functions += ["dicom_ul::association::encode_pdu", "dicom_ul::pdu::writer::write_pdu (P-DATA-TF arm, closures, write_chunk_u32)"]
    nat = native.Native()
    # payload sizes are those a real association admits (an acceptor's maximum PDU length is at least 4096), so that every counterexample
    # can be replayed over a loopback association; only the first two bytes of each payload are symbolic, the rest is filler
    shapes = [(4091,), (5000,), (2046, 2046), (4000, 90, 3), (0, 4100)] if tier == "quick" else [(4091,), (5000,), (16000,), (2046, 2046), (90, 3996), (4000, 90, 3), (0, 4100), (1000, 1000, 1000, 1100), (0, 0, 0, 4095)]
    for shape in shapes:
        box = {}

        def build(ctx, shape=shape):
            pdvs = []
            for k, n in enumerate(shape):
                vt = core.Enum("Command" if k % 2 == 0 else "Data", [])
                pdvs.append(core.Struct([BitVec("pc%d" % k, 8), vt, Bool("last%d" % k), c25rq.Sink([BitVec("d%d_%d" % (k, j), 8) for j in range(min(n, 2))] + [0x5A] * max(0, n - 2))]))
            pdu = core.Enum("PData", [core.VecV(pdvs)])
            buf = c25rq.Sink([])
            mx = BitVec("peer_max", 32)
            r = core.run_fn(ENC, [core.Ref(core.Cell(buf)), core.Ref(core.Cell(pdu)), mx], ctx)
            box["len"] = len(buf.b)
            box["ok"] = r.variant == "Ok"
            # independent count: 6 bytes of PDU header, per PDV 4 (length) + 1 (context id) + 1 (control header) + payload
            expect = 6 + sum(6 + n for n in shape)
            if r.variant == "Ok":
                if len(buf.b) != expect:
                    box["problem"] = "encoded PDU has %d bytes, PS3.8 9.3.5 gives %d" % (len(buf.b), expect); return BoolVal(True)
                box["problem"] = "encode_pdu returned Ok for a PDU of %d bytes although the peer's maximum is smaller" % expect
                ctx.bad = UGT(BitVecVal(expect, 32), mx)
                return ctx.bad
            box["problem"] = "encode_pdu refused a PDU of %d bytes although the peer's maximum is not smaller" % expect
            ctx.bad = ULE(BitVecVal(expect, 32), mx)
            return ctx.bad

        res = core.explore(build)
        rep.nontrivial += res["paths"]
        name = "P-DATA-TF with PDV payloads %s, symbolic bytes and symbolic peer maximum: Ok <=> encoded length <= maximum" % (list(shape),)
        if res["violation"]:
            model, vctx = res["violation"][0], res["violation"][2]
            # prefer a peer maximum that a real acceptor can announce (maximum PDU length = peer_max - 6 >= 1)
            s2 = Solver(); mxv = BitVec("peer_max", 32)
            s2.add(vctx.pc + [vctx.bad, UGE(mxv, 4102), ULE(mxv, 100000)])
            if s2.check() == sat: model = s2.model()
            mx = model.eval(BitVec("peer_max", 32), model_completion=True).as_long()
            real = nat.ask("encode_pdu", mx, *shape)
            rp = rep.replay_file("c29_send_%s" % "_".join(map(str, shape)), "// engine=M case=c29send\n// native: encode_pdu %d %s  (peer maximum, payload length per PDV; through a real association over loopback)\n// encoding: %s\n// real: %s\n" % (mx, " ".join(map(str, shape)), box.get("problem"), real))
            # real = "OK <bytes>" | "REJECTED" ; violation iff sent although too long, or rejected although it fits
            expect = 6 + sum(6 + n for n in shape)
            bad = (real.startswith("OK") and expect > mx) or (real.startswith("REJECTED") and expect <= mx)
            if bad:
                rep.violations.append(("send-size limit: P-DATA-TF with PDV payloads %s (%d bytes), peer maximum %d: real send answered %s" % (list(shape), expect, mx, real), rp))
                rep.obligation(name, "violated", {"peer_max": mx, "native": real})
            else:
                rep.inconclusive.append("C29 send-size counterexample does not reproduce natively: %s max=%d -> %s" % (list(shape), mx, real))
                rep.obligation(name, "inconclusive", {"peer_max": mx, "native": real})
        else:
            rep.validated += 1
            expect = 6 + sum(6 + n for n in shape)
            for mx in (expect, expect - 1):
                if mx < 4102: continue
                real = nat.ask("encode_pdu", mx, *shape)
                if real.startswith("OK") != (expect <= mx):
                    rep.inconclusive.append("native send of %s with maximum %d answered %s" % (list(shape), mx, real))
            rep.obligation(name, "holds", {"paths": res["paths"]})
    nat.close()
    core.EXTRA_CONTRACTS[:] = []
