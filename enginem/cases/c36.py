"""C36 — application entity addresses print and parse back unchanged (T = String instantiation).
Encoded: MIR of Display/FromStr for FullAeAddr<T> and AeAddr<T> (ul/src/address.rs)."""
import os
from z3 import *
import core, mirdump, native


def hexs(bs):
    return "".join("%02x" % b for b in bs) if bs else "-"


def run(rep, tier, seed, known, part):
    path, ds = mirdump.dump("dicom-ul")
    core.load([path])
    F = core.FNS
    FULL_FROM = next(n for n in F if n.startswith("address::") and n.endswith("::from_str") and "FullAeAddr<T>" in F[n].ret)
    FULL_FMT = next(n for n in F if n.startswith("address::") and n.endswith("::fmt") and "&FullAeAddr<T>" in F[n].ptext and "write_str" in "\n".join(sum(F[n].blocks.values(), [])))
    AE_FROM = next(n for n in F if n.startswith("address::") and n.endswith("::from_str") and "Result<AeAddr<T>" in F[n].ret)
    AE_FMT = next(n for n in F if n.startswith("address::") and n.endswith("::fmt") and "&AeAddr<T>" in F[n].ptext and "write_str" in "\n".join(sum(F[n].blocks.values(), [])))
    rep.functions += ["dicom_ul::address::<FullAeAddr<T> as Display>::fmt", "<FullAeAddr<T> as FromStr>::from_str", "<AeAddr<T> as Display>::fmt",
                      "<AeAddr<T> as FromStr>::from_str (+2 closures), all at T = String"]
    nat = native.Native()
    sizes = [(1, 1), (2, 2), (3, 3), (1, 3), (3, 1)] if tier == "quick" else [(a, b) for a in range(1, 5) for b in range(1, 5)]
    for kind in ("full", "titled", "titleless"):
        for (tl, al) in sizes:
            if kind == "titleless" and tl != sizes[0][0] and (tl, al) not in [(1, 1), (2, 2), (3, 3)]:
                continue
            t = [BitVec("t%d" % i, 8) for i in range(tl)]
            a = [BitVec("a%d" % i, 8) for i in range(al)]

            def build(ctx):
                for b in t:
                    ctx.pc += [b != ord("@"), ULT(b, 0x80), UGE(b, 0x01)]          # the statement's precondition: no '@' in the title
                for b in a:
                    ctx.pc += [ULT(b, 0x80), UGE(b, 0x01)]
                sink = core.Str([])
                if kind == "full":
                    addr = core.Struct([core.Str(t), core.Str(a)])
                    r = core.run_fn(FULL_FMT, [core.Ref(core.Cell(addr)), core.Ref(core.Cell(sink))], ctx)
                else:
                    title = core.Enum("Some", [core.Str(t)]) if kind == "titled" else core.Enum("None", [])
                    addr = core.Struct([title, core.Str(a)])
                    r = core.run_fn(AE_FMT, [core.Ref(core.Cell(addr)), core.Ref(core.Cell(sink))], ctx)
                ctx.text = sink
                if r.variant != "Ok":
                    return BoolVal(True)
                back = core.run_fn(FULL_FROM if kind == "full" else AE_FROM, [core.Str(list(sink.b))], ctx)
                if back.variant != "Ok":
                    return BoolVal(True)
                v = back.f[0]
                if kind == "full":
                    bt, ba = v.f[0].b, v.f[1].b
                elif kind == "titled":
                    if v.f[0].variant != "Some":
                        return BoolVal(True)
                    bt, ba = v.f[0].f[0].b, v.f[1].b
                else:
                    if v.f[0].variant != "None":
                        return BoolVal(True)          # an address without a title must parse back without one
                    bt, ba = [], v.f[1].b
                want_t = t if kind != "titleless" else []
                if len(bt) != len(want_t) or len(ba) != al:
                    return BoolVal(True)
                return Or([x != y for x, y in zip(bt + ba, want_t + a)])

            res = core.explore(build)
            name = "AE address print->parse identity: %s, title %d bytes, address %d bytes" % (kind, tl if kind != "titleless" else 0, al)

            def cmd(model):
                tv = [model.eval(b, model_completion=True).as_long() for b in t]
                av = [model.eval(b, model_completion=True).as_long() for b in a]
                return ["ae" if kind == "full" else "ae", hexs(tv) if kind != "titleless" else "~", hexs(av)], tv, av

            bad = []
            for model, ctx in res["witnesses"][:4]:
                if kind == "titled":
                    continue      # the native command for a titled AeAddr goes through FullAeAddr; skip cross-check
                c, tv, av = cmd(model)
                real = nat.ask(*c).split()
                rep.validated += 1
                enc = hexs([b if isinstance(b, int) else model.eval(b, model_completion=True).as_long() for b in ctx.text.b])
                if real[0] != enc:
                    bad.append("%s: encoding prints %s, real Display prints %s" % (c, enc, real[0]))
            if bad:
                rep.inconclusive.append("encoding disagrees with native execution: " + "; ".join(bad[:2]))
            rep.nontrivial += res["paths"]
            if res["violation"]:
                model, pidx, ctx = res["violation"]
                c, tv, av = cmd(model)
                real = nat.ask(*c).split()
                rp = rep.replay_file("c36_%s_%d_%d" % (kind, tl, al), "// engine=M case=c36\n// native: %s\n// real answer: %s\n" % (" ".join(c), " ".join(real)))
                want = [hexs(tv) if kind != "titleless" else "~", hexs(av)]
                if real[1:] != want:
                    rep.violations.append(("AE address (%s) title=%s addr=%s parses back as %s" % (kind, want[0], want[1], real[1:]), rp))
                    rep.obligation(name, "violated", {"input": c, "native": real})
                else:
                    rep.inconclusive.append("C36 counterexample %s does not reproduce natively" % c)
                    rep.obligation(name, "inconclusive", {"input": c})
            else:
                rep.obligation(name, "holds", {"paths": res["paths"], "solver_s": round(res["time"], 2)})
    nat.close()
    os.remove(path)
