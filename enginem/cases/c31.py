"""C31 — command sets carry a correct Command Group Length.
Encoded (container mode): MIR of InMemDicomObject::command_from_iter_with_dict (+ closure) and even_len (dicom-object); elements are
abstract (symbolic tag, symbolic value length as reported by the value's HasLength::length, and an independent symbolic declared
header length as reported by the element's HasLength::length); BTreeMap is a finite map with symbolic keys."""
import os, re
from z3 import *
import core, mirdump, native

UNDEF = 0xFFFFFFFF


class Elem(core.Struct):
    def __init__(self, g, e, length, declared=None):
        core.Struct.__init__(self, [g, e, length])
        self.kind = "Elem"
        self.declared = length if declared is None else declared     # the length in the element's header (DataElement::new_with_len lets it differ)


def run(rep, tier, seed, known, part):
    po, _ = mirdump.dump("dicom-object")
    core.load([po])
    os.remove(po)
    F = next(n for n in core.FNS if n.endswith("::command_from_iter_with_dict"))
    rep.functions += ["dicom_object::mem::InMemDicomObject::command_from_iter_with_dict (+ closure#0)", "dicom_object::mem::even_len"]
    d = core._d

    class BMap:
        def __init__(self):
            self.items = []          # list of (tag Struct, value)

        def insert(self, k, v, ctx):
            """returns the value previously stored under the key, or None"""
            for i, (k2, old) in enumerate(self.items):
                same = And(k.f[0] == k2.f[0], k.f[1] == k2.f[1])
                if ctx.branch(same):
                    self.items[i] = (k2, v)
                    return old
            self.items.append((k, v))
            return None

    def bv16(x):
        return BitVecVal(x, 16) if isinstance(x, int) else x

    def contracts(c, args, ctx):
        if c == "<I as IntoIterator>::into_iter":
            return core.SliceIter(list(d(args[0]).items))
        if re.search(r"as Iterator>::collect::<BTreeMap<", c):
            m = BMap()
            while True:
                x = core.iter_next(d(args[0]), ctx)
                if x is None:
                    return m
                x = d(x)
                m.insert(d(x.f[0]), x.f[1], ctx)
        if re.match(r"BTreeMap::<.*>::values$", c):
            return core.SliceIter([core.Ref(core.Cell(v)) for _, v in d(args[0]).items])
        if re.match(r"BTreeMap::<.*>::insert$", c):
            old = d(args[0]).insert(d(args[1]), args[2], ctx)
            return core.Enum("None", []) if old is None else core.Enum("Some", [old])
        if re.match(r"BTreeMap::<.*>::new$", c):
            return BMap()
        if c.endswith("as dicom_core::header::Header>::tag") or c.endswith("as Header>::tag"):
            el = d(args[0])
            return core.Struct([el.f[0], el.f[1]])
        if re.match(r"DataElement::<.*>::value$", c):
            return core.Ref(core.Cell(("value", d(args[0]))))
        if c.endswith("as HasLength>::length"):
            v = d(args[0])
            if isinstance(v, Elem): return core.Struct([v.declared])     # <DataElement as HasLength>::length: the header's declared length
            return core.Struct([v[1].f[2]])                              # <Value as HasLength>::length: the value's own byte length
        if c == "dicom_core::Length::is_defined":
            return d(args[0]).f[0] != BitVecVal(UNDEF, 32)
        if c.startswith("<dicom_core::PrimitiveValue as From<u32>>::from"):
            return ("group_length_value", args[0])
        if re.match(r"DataElement::<.*>::new::<", c):
            t = d(args[0])
            el = Elem(bv16(t.f[0]), bv16(t.f[1]), BitVecVal(4, 32))
            el.payload = args[2]
            return el
        return NotImplemented
    core.EXTRA_CONTRACTS[:] = [contracts]
    nat = native.Native()
    for n in ((2, 3) if tier == "quick" else (1, 2, 3, 4)):
        gs = [BitVec("g%d" % k, 16) for k in range(n)]
        es = [BitVec("e%d" % k, 16) for k in range(n)]
        ls = [BitVec("l%d" % k, 32) for k in range(n)]
        hs = [BitVec("h%d" % k, 32) for k in range(n)]          # declared header lengths: unconstrained (new_with_len does not check them)

        def build(ctx):
            for k in range(n):
                ctx.pc += [ULE(ls[k], BitVecVal(1 << 16, 32))]          # value lengths up to 64 KiB (no u32 overflow of the sum)
                ctx.pc += [Or(gs[k] == 0, gs[k] == 8)]                  # command group or a stray data set group
            elems = core.VecV([Elem(gs[k], es[k], ls[k], hs[k]) for k in range(n)])
            obj = core.run_fn(F, [elems, ("dict",)], ctx)
            entries = d(obj.f[0]).items
            ctx.entries = entries
            # oracle: bytes that the OTHER command elements occupy in Implicit VR LE = 8 header bytes + value padded to even length
            total = BitVecVal(0, 32)
            got = None
            for k, v in entries:
                v = d(v)
                is_glen = And(k.f[0] == 0, k.f[1] == 0)
                if hasattr(v, "payload"):
                    got = v.payload[1]
                    continue
                total = total + If(And(k.f[0] == 0, Not(is_glen)), 8 + ((v.f[2] + 1) & ~BitVecVal(1, 32)), BitVecVal(0, 32))
            if got is None:
                return BoolVal(True)
            ctx.got, ctx.total = got, total
            return got != total
        res = core.explore(build)
        rep.nontrivial += res["paths"]
        name = "command set of %d elements (symbolic tags, may coincide; value lengths <= 64 KiB): group length == bytes of the other command elements" % n
        if res["violation"]:
            model, vctx = res["violation"][0], res["violation"][2]
            # prefer a counterexample with small value lengths (the native replay allocates the values)
            s2 = Solver(); s2.add(vctx.pc + [vctx.got != vctx.total] + [ULE(l, 64) for l in ls])
            if s2.check() == sat: model = s2.model()
            g = lambda x: model.eval(x, model_completion=True).as_long()
            words = ["cmd_len_decl"]
            for k in range(n):
                words += ["%04X" % g(gs[k]), "%04X" % g(es[k]), min(g(ls[k]), 64), g(hs[k])]
            real = nat.ask(*words)
            rp = rep.replay_file("c31_%d" % n, "// engine=M case=c31\n// native: %s   (tag group, element, value length, declared header length per element)\n// real answer (group length value, bytes actually written for the other command elements): %s\n" % (" ".join(map(str, words)), real))
            parts = real.split()
            if len(parts) == 2 and parts[0] != parts[1]:
                what = "command set from elements %s: Command Group Length = %s but the other command elements occupy %s bytes" % (words[1:], parts[0], parts[1])
                role = "c31_duplicate_tags"
                if role in known:
                    rep.known_hits.append((role, known[role]))
                    rep.obligation(name, "known-finding", {"input": words, "native": real})
                else:
                    rep.violations.append((what, rp))
                    rep.obligation(name, "violated", {"input": words, "native": real})
            else:
                rep.inconclusive.append("C31 model %s does not reproduce natively (%s)" % (words, real))
                rep.obligation(name, "inconclusive", {"input": words, "native": real})
        else:
            rep.obligation(name, "holds", {"paths": res["paths"]})
    for words in (["cmd_len", "0000", "0002", 3, "0000", "0100", 2], ["cmd_len", "0000", "0110", 2, "0000", "0800", 2, "0000", "0002", 25]):
        real = nat.ask(*words).split()
        rep.validated += 1
        if len(real) != 2 or real[0] != real[1]:
            rep.inconclusive.append("native command set %s is not self-consistent: %s" % (words, real))
    nat.close()
    core.EXTRA_CONTRACTS[:] = []
