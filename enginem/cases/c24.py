"""C24 — DICOM JSON output conforms to PS3.18 Annex F (element level).
Encoded: MIR of `Serialize for DicomJson<&InMemElement<D>>`, of the value wrappers AsStrings / AsNumbers / InlineBinary / AsPersonNames /
PersonNameDef / DicomJson<Tag> (dicom-json) and of PrimitiveValue::to_multi_str (+ seq_to_str, closure) (dicom-core).  The generic
`S: Serializer` calls are contracts that RECORD the event stream; the oracle is the Annex F grammar of that stream per VR."""
import os, re
from z3 import *
import core, mirdump, native

VR = core.VRNAMES
HEX = "0123456789ABCDEF"


class Ser:
    def __init__(self):
        self.ev = []


class B64:
    """result of base64 `encode`: remembers the bytes it was computed from"""
    def __init__(self, data):
        self.data = data


class Dec:
    """decimal text of an integer term (ToString of an integer)"""
    def __init__(self, v):
        self.v = v


class FmtArg:
    def __init__(self, kind, v):
        self.kind, self.v = kind, v


def deref(v):
    while isinstance(v, core.Ref):
        v = v.get()
    return v


def items_of(v):
    v = deref(v)
    if isinstance(v, core.VecV):
        return list(v.items)
    if isinstance(v, core.Struct):
        return list(v.f)
    if isinstance(v, core.MapIter):
        out = []
        while True:
            it = v.it.next()
            if it is None:
                return out
            out.append(("mapped", v.clo, it))
    raise core.NotEncodable("collect_seq over %r" % (v,))


def serialize_value(v, ser, ctx):
    v = deref(v)
    if isinstance(v, tuple) and v and v[0] == "mapped":
        _, clo, it = v
        return serialize_value(core.run_fn(clo.fn, [clo, it], ctx), ser, ctx)
    if isinstance(v, core.Str):
        ser.ev.append(("str", list(v.b)))
    elif isinstance(v, B64):
        ser.ev.append(("b64", v.data))
    elif isinstance(v, Dec):
        ser.ev.append(("decstr", v.v))
    elif isinstance(v, core.Wrapper):
        fn = next(n for n in core.FNS if n.endswith("::serialize") and re.search(r"_1: &%s\b" % re.escape(v.kind), core.FNS[n].ptext))
        return core.run_fn(fn, [core.Ref(core.Cell(v)), ser], ctx)
    elif isinstance(v, core.Enum) and v.variant == "None":
        ser.ev.append(("null",))
    elif is_expr(v) and is_fp(v):
        ser.ev.append(("float", v))
    elif is_expr(v) or isinstance(v, int):
        ser.ev.append(("int", v))
    elif isinstance(v, core.Struct) and getattr(v, "kind", None):
        fn = next(n for n in core.FNS if n.endswith("::serialize") and re.search(r"_1: &%s(?![\w<])" % re.escape(v.kind.replace("<'_>", "")), core.FNS[n].ptext.replace("<'_>", "")))
        return core.run_fn(fn, [core.Ref(core.Cell(v)), ser], ctx)
    else:
        raise core.NotEncodable("serialize_value of %r" % (v,))
    return core.Enum("Ok", [None])


def decode_template(tpl):
    """core::fmt::Arguments template bytes (documented in library/core/src/fmt/mod.rs) -> list of pieces / placeholders"""
    out, i, nxt = [], 0, 0
    while i < len(tpl):
        b = tpl[i]
        if b == 0:
            break
        if b < 0x80:
            out.append(("lit", tpl[i + 1:i + 1 + b])); i += 1 + b
        elif b == 0x80:
            n = tpl[i + 1] | (tpl[i + 2] << 8)
            out.append(("lit", tpl[i + 3:i + 3 + n])); i += 3 + n
        elif b & 0xC0 == 0xC0:
            i += 1
            flags = 0xE0000020
            width = prec = None
            if b & 1:
                flags = int.from_bytes(tpl[i:i + 4], "little"); i += 4
            if b & 2:
                width = int.from_bytes(tpl[i:i + 2], "little"); i += 2
            if b & 4:
                prec = int.from_bytes(tpl[i:i + 2], "little"); i += 2
            idx = nxt
            if b & 8:
                idx = int.from_bytes(tpl[i:i + 2], "little"); i += 2
            if b & 0x30:
                raise core.NotEncodable("indirect width/precision in format template")
            nxt = idx + 1
            out.append(("arg", idx, flags, width, prec))
        else:
            raise core.NotEncodable("format template byte %02x" % b)
    return out


def hexdigits(v, n, upper):
    w = v.size()
    out = []
    for k in range(n):
        sh = 4 * (n - 1 - k)
        nib = Extract(sh + 3, sh, v) if sh + 3 < w else BitVecVal(0, 4)
        nib8 = ZeroExt(4, nib)
        out.append(simplify(If(ULT(nib8, 10), nib8 + 48, nib8 + (55 if upper else 87))))
    return out


def do_format(args_struct, tpl):
    out = []
    for p in decode_template(tpl):
        if p[0] == "lit":
            out += list(p[1])
            continue
        _, idx, flags, width, prec = p
        a = deref(args_struct.f[idx])
        if a.kind in ("upper_hex", "lower_hex"):
            v = deref(a.v)
            nd = v.size() // 4
            if not (flags & (1 << 24)) or width is None or width != nd:
                # only the zero-padded full-width form has a length that does not depend on the value
                raise core.NotEncodable("hex format with width %r / flags %x on a %d-bit value" % (width, flags, v.size()))
            out += hexdigits(v, nd, a.kind == "upper_hex")
        elif a.kind == "display" and isinstance(deref(a.v), core.Str):
            out += list(deref(a.v).b)
        else:
            raise core.NotEncodable("format argument kind " + a.kind)
    return core.Str(out)


def contracts(c, args, ctx):
    if c.endswith("_serde::Serializer>::serialize_map"):
        args[0].ev.append(("map",)); return core.Enum("Ok", [args[0]])
    if "as SerializeMap>::serialize_entry::<" in c:
        ser = deref(args[0])
        k = deref(args[1])
        ser.ev.append(("key", k))
        return serialize_value(args[2], ser, ctx)
    if c.endswith("as SerializeMap>::end"):
        deref(args[0]).ev.append(("endmap",)); return core.Enum("Ok", [None])
    if "_serde::Serializer>::collect_seq::<" in c:
        ser = args[0]; ser.ev.append(("seq",))
        for it in items_of(args[1]):
            serialize_value(it, ser, ctx)
        ser.ev.append(("endseq",)); return core.Enum("Ok", [None])
    if c.endswith("_serde::Serializer>::serialize_seq"):
        args[0].ev.append(("seq",)); return core.Enum("Ok", [args[0]])
    if "as SerializeSeq>::serialize_element::<" in c:
        return serialize_value(args[1], deref(args[0]), ctx)
    if c.endswith("as SerializeSeq>::end"):
        deref(args[0]).ev.append(("endseq",)); return core.Enum("Ok", [None])
    if c.endswith("_serde::Serializer>::serialize_str"):
        v = deref(args[1])
        return serialize_value(v, args[0], ctx)
    if c.endswith("_serde::Serializer>::serialize_struct"):
        args[0].ev.append(("map",)); return core.Enum("Ok", [args[0]])
    if "as SerializeStruct>::serialize_field::<" in c:
        ser = deref(args[0]); ser.ev.append(("key", deref(args[1])))
        return serialize_value(args[2], ser, ctx)
    if c.endswith("as SerializeStruct>::end"):
        deref(args[0]).ev.append(("endmap",)); return core.Enum("Ok", [None])
    if c == "PrimitiveValue::to_bytes":
        return ("to_bytes", deref(args[0]))
    if c.startswith("<GeneralPurpose as Engine>::encode::<"):
        src = deref(args[1])
        if not (isinstance(src, tuple) and src[0] == "to_bytes"):
            raise core.NotEncodable("base64 input is not the value's to_bytes()")
        return B64(src[1])
    # ---- vocabulary for serialisers that write the base64 text piecewise (collect_str over a Display helper, Engine::encode_slice per chunk)
    if re.search(r"_serde::Serializer>::collect_str::<", c):
        import fmtlib
        f = fmtlib.Formatter(fmtlib.default_opts())
        tyname = c[c.index("collect_str::<") + 14:-1]
        pick_ = fmtlib.find_fmt(tyname, "Display")
        if not pick_: raise core.NotEncodable("collect_str over " + tyname)
        core.run_fn(pick_, [args[1], core.Ref(core.Cell(f))], ctx)
        ser = deref(args[0])
        if len(f.buf) == 1 and isinstance(f.buf[0], B64): ser.ev.append(("b64", f.buf[0].data))
        else: ser.ev.append(("pieces", list(f.buf)))
        return core.Enum("Ok", [None])
    if re.fullmatch(r"core::slice::<impl \[u8\]>::chunks", c):
        src = deref(args[0]); n = core.concrete_index(args[1])
        if not (isinstance(src, tuple) and src[0] == "to_bytes"): raise core.NotEncodable("chunks of something else than the value's bytes")
        pv = src[1]
        total = len(pv.f[0].items) * {"U8": 1, "U16": 2, "I16": 2, "U32": 4, "I32": 4, "F32": 4, "U64": 8, "I64": 8, "F64": 8}[pv.variant]
        parts = [("to_bytes", pv)] if total <= n else [("bytes_part", pv, lo, min(lo + n, total)) for lo in range(0, total, n)]
        return core.SliceIter(parts)
    if re.fullmatch(r"<(std::slice::)?Chunks<'_, u8> as IntoIterator>::into_iter", c): return args[0]
    if re.fullmatch(r"<std::slice::Chunks<'_, u8> as Iterator>::next|<Chunks<'_, u8> as Iterator>::next", c):
        return core.opt(deref(args[0]).next())
    if re.search(r"as Engine>::encode_slice::<", c):
        src = deref(args[1]); buf = deref(args[2])
        piece = B64(src[1]) if (isinstance(src, tuple) and src[0] == "to_bytes") else B64(src)
        buf.piece = piece
        return core.Enum("Ok", [("b64len", piece)])
    if re.fullmatch(r"<\[u8(; \d+)?\] as (std::ops::)?Index<(std::ops::)?RangeTo<usize>>>::index", c):
        rng = args[1]; end = rng.f[0] if isinstance(rng, core.Struct) else rng[0]
        if isinstance(end, tuple) and end[0] == "b64len": return end[1]
    if re.fullmatch(r"((std|core)::str::)?from_utf8", c) and isinstance(deref(args[0]), B64):
        return core.Enum("Ok", [deref(args[0])])
    if re.fullmatch(r"(std::fmt::|core::fmt::)?Formatter::<'_>::write_str", c) and isinstance(deref(args[1]), B64):
        deref(args[0]).buf.append(deref(args[1])); return core.Enum("Ok", [None])
    m = re.match(r"<(i64|u64|i32|u32|T) as ToString>::to_string", c)
    if m and (m.group(1) != "T" or (is_expr(deref(args[0])) and is_bv(deref(args[0])))):
        return Dec(deref(args[0]))
    m = re.match(r"<i32 as NumCast>::from::<([iu])(\d+)>", c)
    if not m and c == "<i32 as NumCast>::from::<T>":
        # generic helper: T is the integer type the enclosing function was instantiated with
        prim = [g for frame in reversed(core.GENERICS) for g in frame if re.fullmatch(r"[iu](8|16|32|64)", g)]
        m = re.match(r"([iu])(\d+)", prim[0]) if prim else None
    if m:
        v = args[0]
        bits, signed = int(m.group(2)), m.group(1) == "i"
        x = SignExt(72 - bits, v) if signed else ZeroExt(72 - bits, v)
        ok = And(x >= BitVecVal(-(1 << 31), 72), x <= BitVecVal((1 << 31) - 1, 72))
        return core.Enum("Some", [Extract(31, 0, x)], sym_some=ok)
    m = re.match(r"core::f(32|64)::<impl f(?:32|64)>::(is_finite|is_nan|is_infinite|is_sign_positive|is_sign_negative)", c)
    if m:
        v = args[0]
        return {"is_finite": lambda: And(Not(fpIsNaN(v)), Not(fpIsInf(v))), "is_nan": lambda: fpIsNaN(v), "is_infinite": lambda: fpIsInf(v),
                "is_sign_positive": lambda: Not(fpIsNegative(v)), "is_sign_negative": lambda: fpIsNegative(v)}[m.group(2)]()
    m = re.match(r"core::fmt::rt::Argument::<'_>::new_(upper_hex|lower_hex|display)::<", c)
    if m:
        return FmtArg(m.group(1), args[0])
    if re.match(r"Arguments::<'_>::new::<\d+, \d+>", c):
        return ("fmtargs", args[0], args[1])
    if c in ("std::fmt::format", "alloc::fmt::format"):
        _, tpl, arr = args[0]
        return do_format(deref(arr), tpl)
    if c.startswith("must_use::<"):
        return args[0]
    if c.startswith("<I as IntoIterator>::into_iter") or re.match(r"<&SmallVec<.*> as IntoIterator>::into_iter", c):
        return core.SliceIter([core.Ref(core.Cell(e)) for e in deref(args[0]).items])
    if re.match(r"<std::slice::Iter<'_, .*> as Iterator>::next", c):
        return core.opt(deref(args[0]).next())
    return NotImplemented


def text(ev_item, model=None):
    out = []
    for b in ev_item:
        if isinstance(b, int):
            out.append(b)
        else:
            out.append(model.eval(b, model_completion=True).as_long() if model is not None else None)
    return out


def run(rep, tier, seed, known, part):
    pj, _ = mirdump.dump("dicom-json")
    pc, _ = mirdump.dump("dicom-core")
    core.load([pj, pc])
    os.remove(pj); os.remove(pc)
    core.EXTRA_CONTRACTS[:] = [contracts]
    core.DISC.update({"Primitive": 0, "Sequence": 1, "PixelSequence": 2})
    # the prototype's byte-string constant parser handles "..." only; format templates are b"..." constants
    F = next(n for n in core.FNS if n.endswith("::serialize") and "DicomJson<&DataElement<InMemDicomObject<D>>>" in core.FNS[n].ptext)
    rep.functions += ["dicom_json::ser::<impl Serialize for DicomJson<&InMemElement<D>>>::serialize", "ser::value::{AsStrings,AsNumbers,InlineBinary,AsPersonNames,PersonNameDef}::serialize",
                      "<DicomJson<Tag> as Serialize>::serialize", "dicom_core::PrimitiveValue::to_multi_str (+seq_to_str, closure)"]
    nat = native.Native()
    g, e = BitVecs("g e", 16)
    g2, e2 = BitVecs("g2 e2", 16)

    def elem(vrname, pv):
        vr = core.Enum(vrname, []); vr.idx = VR.index(vrname)
        val = core.Enum("Primitive", [pv]) if pv is not None else core.Enum("Primitive", [core.Enum("Empty", [])])
        return core.Struct([vr, val])

    def run_case(name, vrname, pv, oracle, native_words, native_check, pre=()):
        box = {}

        def build(ctx):
            ctx.pc += list(pre)
            ser = Ser()
            core.run_fn(F, [core.Ref(core.Cell(core.Struct([core.Ref(core.Cell(elem(vrname, pv)))]))), ser], ctx)
            box["ev"] = ser.ev
            ctx.ev = ser.ev
            # common shape: map, key "vr", str VR, [key Value|InlineBinary, ...], endmap
            ev = ser.ev
            bad = []
            if not (len(ev) >= 4 and ev[0] == ("map",) and ev[1][0] == "key" and bytes(ev[1][1].b) == b"vr" and ev[2] == ("str", list(vrname.encode())) and ev[-1] == ("endmap",)):
                return BoolVal(True)
            return oracle(ev[3:-1])

        res = core.explore(build)
        rep.nontrivial += res["paths"]
        if res["violation"]:
            model, pidx, ctx = res["violation"]
            words = native_words(model)
            real = nat.ask(*words)
            ok, what = native_check(model, real)
            rp = rep.replay_file("c24_" + vrname, "// engine=M case=c24\n// native: %s\n// real serializer output: %s\n// %s\n" % (" ".join(map(str, words)), real, what))
            role = "c24_" + vrname + ("_zero_items" if "zero items" in name else "")
            if ok:
                if role in known:
                    rep.known_hits.append((role, known[role]))
                    rep.obligation(name, "known-finding", {"native": real})
                else:
                    rep.violations.append(("%s element serialises as %s: %s" % (vrname, real if len(real) < 300 else real[:140] + " ... " + real[-60:], what), rp))
                    rep.obligation(name, "violated", {"input": words, "native": real})
            else:
                rep.inconclusive.append("C24 counterexample for %s does not reproduce natively (%s)" % (vrname, real))
                rep.obligation(name, "inconclusive", {"native": real})
        else:
            # cross-check the recorded events against the real JSON text on one witness
            if res["witnesses"]:
                model, ctx = res["witnesses"][0]
                real = nat.ask(*native_words(model))
                rep.validated += 1
                ok, what = native_check(model, real)
                if ok:
                    rep.inconclusive.append("encoding says %s conforms but the real output %s does not (%s)" % (vrname, real, what))
            rep.obligation(name, "holds", {"paths": res["paths"], "events": repr(box.get("ev"))[:300]})

    # ---------------- AT: values are 8 hex digit strings
    def at_oracle(rest):
        if not (rest and rest[0][0] == "key" and bytes(rest[0][1].b) == b"Value" and rest[1] == ("seq",) and rest[-1] == ("endseq",)):
            return BoolVal(True)
        vals = rest[2:-1]
        tags = [(g, e), (g2, e2)][:len(vals)]
        bad = [BoolVal(len(vals) != at_n[0])]
        for (tg, te), v in zip(tags, vals):
            if v[0] != "str" or len(v[1]) != 8:
                bad.append(BoolVal(True)); continue
            want = hexdigits(tg, 4, True) + hexdigits(te, 4, True)
            for ch, w in zip(v[1], want):
                bad.append(ch != w if not isinstance(ch, int) else BitVecVal(ch, 8) != w)
        return Or(bad)

    at_n = [1]
    for n in (1, 2):
        at_n[0] = n
        tags = [core.Struct([g, e]), core.Struct([g2, e2])][:n]
        run_case("AT element with %d value(s): each value is the 8 upper-case hex digits of the tag" % n, "AT", core.Enum("Tags", [core.VecV(tags)]), at_oracle,
                 lambda m, n=n: ["json_elem", "AT"] + ["%04X" % m.eval(x, model_completion=True).as_long() for x in [g, e, g2, e2][:2 * n]],
                 lambda m, real, n=n: (not re.fullmatch(r'\{"vr":"AT","Value":\[("[0-9A-F]{8}",?){%d}\]\}' % n, real), "Annex F: AT values are 8 hexadecimal digits"))

    # ---------------- numeric VRs: JSON numbers equal to the stored values
    for vrname, variant, bits in (("US", "U16", 16), ("SS", "I16", 16), ("UL", "U32", 32), ("SL", "I32", 32)):
        vals = [BitVec("n%d" % i, bits) for i in range(2)]

        def num_oracle(rest, vals=vals):
            if not (rest and rest[0][0] == "key" and bytes(rest[0][1].b) == b"Value" and rest[1] == ("seq",) and rest[-1] == ("endseq",)):
                return BoolVal(True)
            got = rest[2:-1]
            if len(got) != len(vals) or any(x[0] != "int" for x in got):
                return BoolVal(True)
            return Or([x[1] != v for x, v in zip(got, vals)])
        signed = variant.startswith("I")

        def words(m, vals=vals, bits=bits, signed=signed, vrname=vrname):
            out = []
            for v in vals:
                x = m.eval(v, model_completion=True).as_long()
                if signed and x >= 1 << (bits - 1):
                    x -= 1 << bits
                out.append(x)
            return ["json_elem", vrname] + out
        run_case("%s element: Value is an array of JSON numbers equal to the stored values" % vrname, vrname, core.Enum(variant, [core.VecV(vals)]), num_oracle, words,
                 lambda m, real, vrname=vrname, words=words: (real != '{"vr":"%s","Value":[%s]}' % (vrname, ",".join(str(x) for x in words(m)[2:])), "Annex F: JSON numbers"))

    # ---------------- strings and PN
    sb = [BitVec("s%d" % i, 8) for i in range(3)]

    def str_pre(ctx_pc):
        # printable ASCII without the value separator; no trailing space (trailing padding is removed by documented normalisation)
        return [And(UGE(b, 0x20), ULT(b, 0x7F), b != ord('"'), b != ord("\\")) for b in sb] + [sb[-1] != 0x20]

    def lo_oracle(rest):
        if not (rest and rest[0][0] == "key" and bytes(rest[0][1].b) == b"Value" and rest[1] == ("seq",) and rest[-1] == ("endseq",)):
            return BoolVal(True)
        got = rest[2:-1]
        if len(got) != 1 or got[0][0] != "str" or len(got[0][1]) != 3:
            return BoolVal(True)
        return Or([a != b for a, b in zip(got[0][1], sb)])

    def pn_oracle(rest):
        if not (rest and rest[0][0] == "key" and bytes(rest[0][1].b) == b"Value" and rest[1] == ("seq",) and rest[-1] == ("endseq",)):
            return BoolVal(True)
        got = rest[2:-1]
        if not (len(got) == 4 and got[0] == ("map",) and got[1][0] == "key" and bytes(got[1][1].b) == b"Alphabetic" and got[2][0] == "str" and got[3] == ("endmap",)):
            return BoolVal(True)
        if len(got[2][1]) != 3:
            return BoolVal(True)
        return Or([a != b for a, b in zip(got[2][1], sb)])
    hexw = lambda m: "".join("%02x" % m.eval(b, model_completion=True).as_long() for b in sb)
    for vrname, oracle, shape in (("LO", lo_oracle, '{"vr":"LO","Value":["%s"]}'), ("PN", pn_oracle, '{"vr":"PN","Value":[{"Alphabetic":"%s"}]}')):
        def build_pre(orc):
            def o(rest):
                return And(And(str_pre(None)), orc(rest)) if True else None
            return o
        run_case("%s element: %s" % (vrname, "Value is an array of strings" if vrname == "LO" else "Value is an array of objects with an Alphabetic member"), vrname,
                 core.Enum("Strs", [core.VecV([core.Str(sb)])]), oracle,
                 lambda m, vrname=vrname: ["json_elem", vrname, hexw(m)],
                 lambda m, real, shape=shape: (real != shape % bytes.fromhex(hexw(m)).decode("latin-1"), "Annex F shape"), pre=str_pre(None))

    # ---------------- binary VRs: InlineBinary is the base64 of the value's bytes
    bb = [BitVec("b%d" % i, 8) for i in range(3)]

    def ob_oracle(rest):
        if not (len(rest) == 2 and rest[0][0] == "key" and bytes(rest[0][1].b) == b"InlineBinary" and rest[1][0] == "b64"):
            return BoolVal(True)
        pv = rest[1][1]
        return BoolVal(not (isinstance(pv, core.Enum) and pv.variant == "U8" and pv.f[0].items == bb))
    import base64
    for vrname in ("OB", "UN"):
        run_case("%s element: InlineBinary member holding base64(value bytes), no Value member" % vrname, vrname, core.Enum("U8", [core.VecV(bb)]), ob_oracle,
                 lambda m, vrname=vrname: ["json_elem", vrname] + [m.eval(b, model_completion=True).as_long() for b in bb],
                 lambda m, real, vrname=vrname: (real != '{"vr":"%s","InlineBinary":"%s"}' % (vrname, base64.b64encode(bytes(m.eval(b, model_completion=True).as_long() for b in bb)).decode()), "Annex F InlineBinary"))

    # a value longer than 4096 bytes (base64 must be computed over the whole value, not piecewise)
    big = [BitVec("B%d" % i, 8) for i in range(4100)]

    def big_oracle(rest):
        if not (len(rest) == 2 and rest[0][0] == "key" and bytes(rest[0][1].b) == b"InlineBinary" and rest[1][0] == "b64"):
            return BoolVal(True)
        pv = rest[1][1]
        return BoolVal(not (isinstance(pv, core.Enum) and pv.variant == "U8" and pv.f[0].items == big))
    run_case("OB element of 4100 bytes: InlineBinary member holding base64(all value bytes) in one piece", "OB", core.Enum("U8", [core.VecV(big)]), big_oracle,
             lambda m: ["json_elem", "OB"] + [m.eval(b, model_completion=True).as_long() for b in big],
             lambda m, real: (real != '{"vr":"OB","InlineBinary":"%s"}' % base64.b64encode(bytes(m.eval(b, model_completion=True).as_long() for b in big)).decode(), "Annex F InlineBinary (value of 4100 bytes)"))

    # ---------------- empty values (the Empty variant AND a value holding zero items): no Value / InlineBinary member
    for vrname, variant in (("US", "U16"), ("LO", "Strs"), ("AT", "Tags"), ("OB", "U8"), ("PN", "Strs"), ("UL", "U32")):
        run_case("%s element with PrimitiveValue::Empty: only the vr member" % vrname, vrname, None, lambda rest: BoolVal(len(rest) != 0),
                 lambda m, vrname=vrname: ["json_elem_empty", vrname], lambda m, real, vrname=vrname: (real != '{"vr":"%s"}' % vrname, "Annex F: empty values have no Value member"))
        run_case("%s element whose %s value holds zero items: only the vr member" % (vrname, variant), vrname, core.Enum(variant, [core.VecV([])]), lambda rest: BoolVal(len(rest) != 0),
                 lambda m, vrname=vrname: ["json_elem", vrname], lambda m, real, vrname=vrname: (real != '{"vr":"%s"}' % vrname, "Annex F: empty values have no Value member"))
    nat.close()
    core.EXTRA_CONTRACTS[:] = []
