"""C28 (presentation context rule) — the acceptor answers a proposed presentation context by the rules: same identifier; accepted exactly
when its abstract syntax is configured (or the acceptor is promiscuous) and some proposed transfer syntax is configured (any when none is
configured) and supported; then the accepted transfer syntax is the first such proposed one; otherwise the reason names the failing
condition.
Encoded (container mode): MIR of the per-context closure of ServerAssociationOptions::process_a_association_rq, of choose_ts (+ closure),
choose_supported (+ closure) and trim_uid (+ closure). The proposal and the acceptor's configuration are chosen by the solver from a small
universe of UIDs (including NUL-padded ones and one the registry does not know); `is_supported` is the contract "the NUL-trimmed UID is one
of the two supported ones" (what the registry answers is C16's subject)."""
import os, re
from z3 import *
import core, mirdump, native

d = core._d
AS = ["1.2.3", "1.2.4"]                               # abstract syntaxes of the universe
AS_TEXT = [AS[0], AS[1], AS[0] + "\0", AS[1] + "\0\0"]   # what a context can propose (padded forms included)
T_IMPL, T_EXPL, T_UNK = "1.2.840.10008.1.2", "1.2.840.10008.1.2.1", "1.2.9.9"
TS = [T_IMPL, T_EXPL, T_UNK]
TS_TEXT = [T_IMPL, T_EXPL, T_UNK, T_EXPL + "\0"]
SUPPORTED = {T_IMPL, T_EXPL}
REASONS = ["Acceptance", "UserRejection", "NoReason", "AbstractSyntaxNotSupported", "TransferSyntaxesNotSupported"]


def trim(u): return u.rstrip("\0 ") if u.endswith("\0") else u
def S(t): return core.Str(list(t.encode()))
def text(v): return bytes(d(v).b).decode()


def contracts(c, args, ctx):
    if c in ("is_supported", "association::server::is_supported"):
        return trim(text(args[0])) in SUPPORTED
    if re.fullmatch(r"core::slice::<impl \[Cow<'_, str>\]>::contains", c):
        needle = text(args[1])
        return any(text(x) == needle for x in core.seq_store(d(args[0]))[0])
    if re.fullmatch(r"<Vec<Cow<'_, str>> as Deref>::deref", c): return d(args[0])
    if re.fullmatch(r"Vec::<Cow<'_, str>>::is_empty", c): return len(d(args[0]).items) == 0
    if re.fullmatch(r"<Cow<'_, str> as From<(std::string::)?String>>::from|<&str as Into<Cow<'_, str>>>::into|<Cow<'_, str> as From<&str>>::from", c):
        v = d(args[0]); r = core.Str(list(v.b)); r.cow = "Owned" if "String" in c else "Borrowed"; return r
    if re.fullmatch(r"<(str|Cow<'_, str>|(std::string::)?String) as ToString>::to_string", c): return core.Str(list(d(args[0]).b))
    if re.fullmatch(r"<T as AsRef<str>>::as_ref|<(std::string::)?String as AsRef<str>>::as_ref", c): return d(args[0])
    if re.fullmatch(r"<Cow<'_, str> as Deref>::deref", c): return d(args[0])
    if re.fullmatch(r"core::str::<impl str>::ends_with::<char>", c):
        b = d(args[0]).b; return bool(b) and b[-1] == args[1]
    m = re.fullmatch(r"core::str::<impl str>::trim_end_matches::<\{closure@.*\}>", c)
    if m:
        b = list(d(args[0]).b); clo = args[1]
        while b:
            r = core.run_fn(core.closure_name(clo), [core.Ref(core.Cell(clo)), b[-1]], ctx)
            if not (r if isinstance(r, bool) else ctx.branch(r)): break
            b.pop()
        return core.Str(b)
    if c in ("core::char::methods::<impl char>::is_whitespace", "char::is_whitespace", "char::methods::<impl char>::is_whitespace"):
        ch = args[0]; return ch in (0x20, 0x09, 0x0A, 0x0B, 0x0C, 0x0D)
    if c == "<str as PartialEq>::eq" or re.fullmatch(r"<&?str as PartialEq<&?str>>::eq|<Cow<'_, str> as PartialEq>::eq|<Cow<'_, str> as PartialEq<&?str>>::eq", c):
        return text(args[0]) == text(args[1])
    if re.fullmatch(r"<I as IntoIterator>::into_iter|<Vec<(std::string::)?String> as IntoIterator>::into_iter", c):
        v = d(args[0]); return core.SliceIter(list(v.items)) if isinstance(v, core.VecV) else v
    return NotImplemented


def pick(ctx, name, n):
    """a solver-chosen value in 0..n-1, made concrete by forking"""
    v = BitVec(name, 8)
    ctx.pc.append(ULT(v, n))
    for k in range(n - 1):
        if ctx.branch(v == k): return k
    return n - 1


def run(rep, tier, seed, known, part):
    pu, _ = mirdump.dump("dicom-ul")
    core.load([pu])
    os.remove(pu)
    core.EXTRA_CONTRACTS[:] = [contracts]
    core.ENUMS.update({"PresentationContextResultReason::" + n: k for k, n in enumerate(REASONS)})
    CLO = next(n for n in core.FNS if re.search(r"process_a_association_rq::\{closure#\d+\}$", n) and "PresentationContextProposed" in core.FNS[n].ptext)
    rep.functions += ["dicom_ul::association::server::ServerAssociationOptions::process_a_association_rq::{closure#1} (per-context negotiation)",
                      "ServerAssociationOptions::choose_ts (+ closure)", "choose_supported (+ closure)", "association::uid::trim_uid (+ closure)"]
    nat = native.Native()
    box = {}

    def build(ctx):
        # acceptor configuration
        cfg_as = [AS[k] for k in range(2) if ctx.branch(Bool("cfg_as%d" % k))]
        cfg_ts = [TS[k] for k in range(3) if ctx.branch(Bool("cfg_ts%d" % k))]
        promiscuous = ctx.branch(Bool("promiscuous"))
        # proposal
        pcid = BitVec("pcid", 8)
        a_sel = pick(ctx, "abstract", len(AS_TEXT))
        n_ts = pick(ctx, "n_ts", 3)
        t_sel = [pick(ctx, "ts%d" % k, len(TS_TEXT)) for k in range(n_ts)]
        box["inst"] = (cfg_as, cfg_ts, promiscuous, a_sel, t_sel)
        opts = core.Struct([core.Struct([]), S("THIS-SCP"), S("1.2.840.10008.3.1.1.1"), core.VecV([S(x) for x in cfg_as]), core.VecV([S(x) for x in cfg_ts]),
                            BitVecVal(1, 16), BitVecVal(16384, 32), True, promiscuous, core.Struct([]), core.Struct([])])
        env = core.Struct([core.Ref(core.Cell(opts))])
        pc = core.Struct([pcid, S(AS_TEXT[a_sel]), core.VecV([S(TS_TEXT[k]) for k in t_sel])])
        r = core.run_fn(CLO, [core.Ref(core.Cell(env)), pc], ctx)
        r = d(r)
        rid, reason, ts, asx = r.f[0], d(r.f[1]), text(r.f[2]), text(r.f[3])
        box["got"] = (reason.variant, ts, asx)
        # the rules, spelled out independently
        a_ok = promiscuous or trim(AS_TEXT[a_sel]) in cfg_as
        cands = [TS_TEXT[k] for k in t_sel if (not cfg_ts or trim(TS_TEXT[k]) in cfg_ts) and trim(TS_TEXT[k]) in SUPPORTED]
        if not a_ok: want = ("AbstractSyntaxNotSupported", None)
        elif not cands: want = ("TransferSyntaxesNotSupported", None)
        else: want = ("Acceptance", cands[0])
        box["want"] = want
        problems = []
        if reason.variant != want[0]: problems.append("reason %s, the rules give %s" % (reason.variant, want[0]))
        elif want[1] is not None and ts != want[1]: problems.append("accepted transfer syntax %r, the first configured and supported proposed one is %r" % (ts, want[1]))
        box["problems"] = problems
        ctx.idcond = rid != pcid if not isinstance(rid, int) else BoolVal(False)
        return BoolVal(True) if problems else ctx.idcond

    try:
        res = core.explore(build, max_paths=60000)
        rep.nontrivial += res["paths"]
        name = ("one proposed context (abstract syntax out of %d texts incl. NUL-padded, 0..2 transfer syntaxes out of %d texts incl. padded and unknown) against every configuration "
                "(2 abstract syntaxes, 3 transfer syntaxes, promiscuous flag): identifier, reason and accepted transfer syntax follow the rules" % (len(AS_TEXT), len(TS_TEXT)))
        cfg_as, cfg_ts, promiscuous, a_sel, t_sel = box["inst"]
        words = ["negotiate", int(promiscuous), ",".join(cfg_as) or "-", ",".join(cfg_ts) or "-", AS_TEXT[a_sel].encode().hex(), ",".join(TS_TEXT[k].encode().hex() for k in t_sel) or "-"]
        if res["violation"]:
            real = nat.ask(*words)
            rp = rep.replay_file("c28_context", "// engine=M case=c28\n// native: %s   (promiscuous, configured abstract syntaxes, configured transfer syntaxes, proposed abstract syntax (hex), proposed transfer syntaxes (hex))\n// encoding: got %s, rules give %s\n// real acceptor over loopback: %s\n" % (" ".join(map(str, words)), box.get("got"), box.get("want"), real))
            want = box["want"]
            parts = real.split()
            bad = len(parts) >= 2 and parts[0] == "RESULT" and (parts[1] != str(REASONS.index(want[0])) or (want[1] is not None and (len(parts) < 3 or bytes.fromhex(parts[2]).decode() != want[1])))
            if bad:
                rep.violations.append(("acceptor negotiation: %s; configuration abstract=%s transfer=%s promiscuous=%s, proposal %r with %r; real acceptor: %s" % (
                    box.get("problems") or "identifier differs", cfg_as, cfg_ts, promiscuous, AS_TEXT[a_sel], [TS_TEXT[k] for k in t_sel], real), rp))
                rep.obligation(name, "violated", {"native": real, "instance": words})
            else:
                rep.inconclusive.append("C28 counterexample does not reproduce natively: %s -> %s (rules give %s)" % (words, real, want))
                rep.obligation(name, "inconclusive", {"native": real})
        else:
            rep.validated += 1
            for w in (["negotiate", 0, AS[0], "-", AS[0].encode().hex(), T_EXPL.encode().hex()], ["negotiate", 0, AS[0], T_IMPL, (AS[0] + "\0").encode().hex(), (T_UNK.encode().hex() + "," + T_IMPL.encode().hex())],
                      ["negotiate", 1, "-", "-", AS[1].encode().hex(), T_UNK.encode().hex()]):
                real = nat.ask(*w)
                if not real.startswith("RESULT"): rep.inconclusive.append("native negotiation %s answered %s" % (w, real))
            rep.obligation(name, "holds", {"paths": res["paths"]})
    finally:
        nat.close()
        core.EXTRA_CONTRACTS[:] = []
