"""C09 (operations clause) — after any supported attribute operation on a FileMetaTable the recorded group length is still the one the table's
current attributes give.
Encoded (container mode): MIR of <FileMetaTable as ApplyOp>::apply (+ apply_required_string / apply_optional_string, AttributeSelector::first_step,
PrimitiveValue::string) on a table of concrete shape with symbolic characters and a correct group length, one operation (tag x action per
instance, new text of 4 symbolic characters), then the MIR of calculate_information_group_length on the table as the operation left it.
Negated property: information_group_length != calculate_information_group_length() after the operation (whether it answered Ok or Err).
That calculate_information_group_length equals the bytes the writer emits for every table shape is the subject of the c09 case."""
import os, re
from z3 import *
import core, mirdump, native
from cases import c09, c13

d = core._d
TAGS = {"transfer_syntax": (0x0002, 0x0010), "media_storage_sop_class_uid": (0x0002, 0x0002), "implementation_version_name": (0x0002, 0x0013),
        "source_application_entity_title": (0x0002, 0x0016), "private_information_creator_uid": (0x0002, 0x0100)}
FIELD = {"media_storage_sop_class_uid": 2, "transfer_syntax": 4, "implementation_version_name": 6, "source_application_entity_title": 7, "private_information_creator_uid": 10}


def run(rep, tier, seed, known, part):
    rep.functions += ["<dicom_object::meta::FileMetaTable as ApplyOp>::apply (+ apply_required_string, apply_optional_string)", "dicom_object::meta::FileMetaTable::calculate_information_group_length"]
    paths = {k: mirdump.dump(k)[0] for k in ("dicom-object", "dicom-core")}
    nat = native.Native()
    try:
        core.load([paths["dicom-object"], paths["dicom-core"]])
        core.EXTRA_CONTRACTS[:] = [contracts]
        core.ENUMS.update({"PrimitiveValue::" + k: core.DISC[k] for k in ("Empty", "Strs", "Str", "Tags", "U8", "I16", "U16", "I32", "U32", "I64", "U64", "F32", "F64", "Date", "DateTime", "Time")})
        core.ENUMS.update({"AttributeSelectorStep::Tag": 0, "AttributeSelectorStep::Nested": 1})
        actions = ["SetStr", "SetStrIfMissing", "Set", "SetIfMissing", "Remove", "Empty", "SetVr", "Truncate", "ReplaceStr"]
        fields = list(TAGS) if tier != "quick" else ["transfer_syntax", "implementation_version_name", "source_application_entity_title"]
        for field in fields:
            for action in actions:
                for mask in (0, 0b111111):
                    one(rep, nat, field, action, mask)
    finally:
        nat.close()
        core.EXTRA_CONTRACTS[:] = []
        for p in paths.values():
            try: os.remove(p)
            except OSError: pass


def contracts(c, args, ctx):
    r = c09.contracts_obj(c, args, ctx)
    if r is not NotImplemented: return r
    if re.fullmatch(r"<Cow<'_, str> as ToString>::to_string|<str as ToString>::to_string|<&str as ToString>::to_string|<(std::string::)?String as ToString>::to_string", c):
        v = d(args[0]); return core.Str(list(v.b))
    if re.fullmatch(r"<Cow<'_, str> as Deref>::deref", c): return d(args[0])
    if re.fullmatch(r"(std::string::)?String::clear", c):
        v = d(args[0]); del v.b[:]; return core.Struct([])
    if re.fullmatch(r"Option::<.*>::as_mut", c):
        o = d(args[0])
        return core.Enum("Some", [core.Ref(c13._ListSlot(o.f, 0))]) if o.variant == "Some" else core.Enum("None", [])
    return NotImplemented


def one(rep, nat, field, action, mask):
    pat = (1, 3, 1, 3, 5, 1, 3, 1, 3, 1)
    name = "file meta table (optional attributes %s): %s on %s, then recorded group length == calculate_information_group_length()" % ("all present" if mask else "absent", action, field)
    UPD = next(n for n in core.FNS if n.endswith("::update_information_group_length"))
    CALC = next(n for n in core.FNS if n.endswith("::calculate_information_group_length"))
    APPLY = next(n for n in core.FNS if re.search(r"<impl at object/src/meta.rs:[^>]*>::apply$", n) and "AttributeOp" in core.FNS[n].ptext and "FileMetaTable" in core.FNS[n].ptext)
    box = {}

    def text(prefix, n, pc):
        bs = [BitVec("%s_%d" % (prefix, k), 8) for k in range(n)]
        for b in bs: pc.append(And(UGE(b, 0x30), ULE(b, 0x7A)))
        return core.Str(bs)

    def build(ctx):
        pc = ctx.pc
        fields = [BitVec("stale_len", 32), core.Struct([0, 1])]
        for k, nm in enumerate(("class", "inst", "ts", "impl")): fields.append(text(nm, pat[k], pc))
        for k in range(5): fields.append(core.Enum("Some", [text("opt%d" % k, pat[4 + k], pc)]) if mask >> k & 1 else core.Enum("None", []))
        fields.append(core.Enum("Some", [c09.c04.Sink([BitVec("priv_%d" % j, 8) for j in range(pat[9])])]) if mask >> 5 & 1 else core.Enum("None", []))
        table = core.Struct(fields)
        ref = core.Ref(core.Cell(table))
        core.run_fn(UPD, [ref], ctx)
        before = table.f[0]
        g, e = TAGS[field]
        step = core.Enum("Tag", [core.Struct([BitVecVal(g, 16), BitVecVal(e, 16)])]); step.idx = 0
        selector = core.Struct([core.VecV([step])])
        newstr = text("new", 4, pc)
        newpv = core.Enum("Str", [text("newv", 4, pc)])
        arg = {"Remove": [], "Empty": [], "SetVr": [c13.vr_enum("LO")], "Truncate": [BitVecVal(1, 64)], "Set": [newpv], "SetIfMissing": [newpv], "Replace": [newpv],
               "SetStr": [newstr], "SetStrIfMissing": [newstr], "ReplaceStr": [newstr]}[action]
        act = core.Enum(action, arg); act.idx = c13.ACTIONS.index(action)
        r = d(core.run_fn(APPLY, [ref, core.Struct([selector, act])], ctx))
        rec = table.f[0]
        calc = core.run_fn(CALC, [ref], ctx)
        sv = lambda x: x if isinstance(x, int) else (simplify(x).as_long() if is_bv_value(simplify(x)) else x)
        box["checked"] = box.get("checked", 0) + 1
        box["last"] = (r.variant, sv(before), sv(rec), sv(calc))
        if r.variant == "Ok" and sv(before) != sv(calc): box["changed"] = box.get("changed", 0) + 1
        return rec != calc if not (isinstance(rec, int) and isinstance(calc, int)) else BoolVal(rec != calc)

    res = core.explore(build)
    rep.nontrivial += res["paths"]
    real = nat.ask("meta_op", mask, field, action)
    if res["violation"]:
        rp = rep.replay_file("c09ops_%s_%s_%d" % (field, action, mask), "// engine=M case=c09ops\n// %s\n// encoding: (result, length before, recorded after, calculated after) = %s\n// native: meta_op %d %s %s -> %s\n" % (name, box.get("last"), mask, field, action, real))
        parts = real.split()
        if len(parts) == 4 and parts[0] == "L" and parts[2] != parts[3]:
            rep.violations.append(("file meta table after %s on %s (optional attributes %s): recorded group length %s, %s bytes follow the group length element (real: %s)" % (action, field, "present" if mask else "absent", parts[2], parts[3], real), rp))
            rep.obligation(name, "violated", {"encoding": str(box.get("last")), "native": real})
        else:
            rep.inconclusive.append("C09 operations counterexample does not reproduce natively: %s %s mask %d -> %s" % (field, action, mask, real))
            rep.obligation(name, "inconclusive", {"native": real})
    else:
        if not box.get("checked"): rep.inconclusive.append("vacuous: no path of '%s' reached the comparison" % name[:60])
        parts = real.split()
        if not (len(parts) == 4 and parts[0] == "L" and parts[2] == parts[3]): rep.inconclusive.append("native meta_op %d %s %s answered %s although the encoding holds" % (mask, field, action, real))
        rep.validated += 1
        rep.obligation(name, "holds", {"paths": res["paths"], "paths_where_the_length_changed": box.get("changed", 0), "native": real})
