"""C22 — modality / VOI LUT outputs match the PS3.3 formulas.
Encoded (scalar mode, one merged term per function): MIR of Rescale::apply, WindowLevelTransform::{new,apply}, window_level_linear,
window_level_linear_exact, window_level_sigmoid, Lut::new_rescale_and_window (prefix up to the table construction, which gives y_max),
its closure, Lut::new_rescale's closure, Lut::new_with_fn::{closure#0} (index -> x -> f -> NumCast) and Lut::get."""
import os, random, struct
from z3 import *
import mirdump, native, scalar

F64 = Float64()
RM = RNE()


class R:
    def __init__(self, v):
        self.v = v

    def get(self):
        return self.v


def fbits(x):
    return "%016x" % struct.unpack(">Q", struct.pack(">d", x))[0]


def model_f(m, v):
    x = m.eval(v, model_completion=True)
    bv = m.eval(fpToIEEEBV(x), model_completion=True).as_long()
    return struct.unpack(">d", struct.pack(">Q", bv))[0], "%016x" % bv


def spec_window(kind, x, w, c, ymax):
    """PS3.3 C.11.2.1.2.1 / C.11.2.1.3.2 / C.11.2.1.3.1 with y_min = 0, written in the standard's order of operations"""
    half, one, two, zero = FPVal(0.5, F64), FPVal(1.0, F64), FPVal(2.0, F64), FPVal(0.0, F64)
    if kind == "linear":
        lo = fpSub(RM, fpSub(RM, c, half), fpDiv(RM, fpSub(RM, w, one), two))
        hi = fpAdd(RM, fpSub(RM, c, half), fpDiv(RM, fpSub(RM, w, one), two))
        mid = fpMul(RM, fpAdd(RM, fpDiv(RM, fpSub(RM, x, fpSub(RM, c, half)), fpSub(RM, w, one)), half), ymax)
        return If(fpLEQ(x, lo), zero, If(fpGT(x, hi), ymax, mid))
    if kind == "exact":
        lo = fpSub(RM, c, fpDiv(RM, w, two))
        hi = fpAdd(RM, c, fpDiv(RM, w, two))
        mid = fpMul(RM, fpAdd(RM, fpDiv(RM, fpSub(RM, x, c), w), half), ymax)
        return If(fpLEQ(x, lo), zero, If(fpGT(x, hi), ymax, mid))
    return fpDiv(RM, ymax, fpAdd(RM, one, scalar.EXP(fpDiv(RM, fpMul(RM, FPVal(-4.0, F64), fpSub(RM, x, c)), w))))


def run(rep, tier, seed, known, part):
    path, ds = mirdump.dump("dicom-pixeldata")
    text = open(path).read()
    os.remove(path)
    captured = {}

    class Captured(Exception):
        pass

    def c_new_with_fn(M, argv, pc):
        # run the real Lut::new_with_fn up to the point where it maps its closure over the index range
        captured["args"] = argv
        return M.call(NWF, argv, pc)

    def c_map(M, argv, pc):
        captured["table_closure"] = argv[1]
        raise Captured()

    def c_npot(M, argv, pc):
        v = simplify(argv[0])
        if not is_bv_value(v):
            raise scalar.NotEncodable("next_power_of_two of a symbolic value")
        n = v.as_long()
        p = 1
        while p < n:
            p <<= 1
        return BitVecVal(p, v.size())

    def c_numcast(M, argv, pc):
        return {"numcast": argv[0]}

    def c_context(M, argv, pc):
        return argv[0]

    contracts = {r"Lut::<T>::new_with_fn::<": c_new_with_fn, r"as IntoParallelIterator>::into_par_iter$|as IntoIterator>::into_iter$": (lambda M, a, pc: a[0]),
                 r"as ParallelIterator>::map::<|as Iterator>::map::<": c_map, r"next_power_of_two$": c_npot, r"<T as NumCast>::from::<f64>": c_numcast,
                 r"as OptionExt<T>>::context::<": c_context, r"<I as Into<u32>>::into": lambda M, a, pc: ZeroExt(16, a[0]),
                 r"<Vec<T> as Index<usize>>::index": lambda M, a, pc: R({"index": a[1]})}
    M = scalar.Machine(text, contracts)
    nat = native.Native("nativepix")
    rep.functions += ["dicom_pixeldata::transform::Rescale::apply", "WindowLevelTransform::{new,apply}", "transform::window_level_linear",
                      "transform::window_level_linear_exact", "transform::window_level_sigmoid", "Lut::new_rescale_and_window (prefix: y_max) + closure",
                      "Lut::new_with_fn::{closure#0}", "Lut::get"]
    APPLY_R = M.find(r"^transform::<impl at pixeldata/src/transform.rs:[^>]*>::apply$" if False else r"::apply$")if False else None
    # locate by signature
    fn = lambda pred: next(n for n, f in M.fns.items() if pred(n, f))
    RESCALE_APPLY = fn(lambda n, f: n.endswith("::apply") and f.ptext.startswith("_1: &Rescale"))
    WL_NEW = fn(lambda n, f: n.endswith("::new") and "VoiLutFunction" in f.ptext and f.ret == "WindowLevelTransform")
    WL_APPLY = fn(lambda n, f: n.endswith("::apply") and f.ptext.startswith("_1: &WindowLevelTransform"))
    NWF_CLO = fn(lambda n, f: n.endswith("new_with_fn::{closure#0}"))
    NWF = fn(lambda n, f: n.endswith("::new_with_fn") and "lut" in n)

    def table_closure(bits, signed_term, f):
        """closure that Lut::new_with_fn maps over 0..size, with its captures as the real code builds them"""
        captured.pop("table_closure", None)
        try:
            M.call(NWF, [BitVecVal(bits, 16), signed_term, f])
        except Captured:
            pass
        return captured["table_closure"]
    RW = fn(lambda n, f: n.endswith("::new_rescale_and_window") and "lut" in n)
    GET = fn(lambda n, f: n.endswith("::get") and f.ptext.startswith("_1: &Lut<T>"))
    x, w, c, ymax, sl, ic = FPs("x w c ymax sl ic", F64)
    fin = lambda v: And(Not(fpIsNaN(v)), Not(fpIsInf(v)))

    def decide(name, neg, cmd_of_model, check_native, timeout_ms=120000, detail=None, enum=None):
        s = Solver()
        s.set("timeout", timeout_ms)
        s.add(neg)
        import time
        t0 = time.time()
        r = s.check()
        dt = round(time.time() - t0, 2)
        rep.evaluations += 1
        d = {"solver_s": dt}
        d.update(detail or {})
        if r == unsat:
            rep.nontrivial += 1
            rep.obligation(name, "holds", d)
            return None
        if r == sat:
            m = s.model()
            cmd = cmd_of_model(m)
            ok, what = check_native(m, cmd)
            rp = rep.replay_file("c22_" + "".join(ch if ch.isalnum() else "_" for ch in name)[:60], "// engine=M case=c22\n// native(nativepix): %s\n// %s\n" % (" ".join(map(str, cmd)), what))
            if ok:
                rep.violations.append((name + ": " + what, rp))
                rep.obligation(name, "violated", {"input": cmd, "note": what})
            else:
                rep.inconclusive.append("C22 model for '%s' does not reproduce natively: %s" % (name, what))
                rep.obligation(name, "inconclusive", {"input": cmd, "note": what})
            return m
        if enum is not None:
            # the solver gave up: decide the same formula by evaluating the encoded term on EVERY value of the finite domain
            var, count = enum
            t1 = time.time()
            for k in range(count):
                if not is_false(simplify(substitute(neg, (var, BitVecVal(k, var.size()))))):
                    s2 = Solver(); s2.add(neg, var == k)
                    if s2.check() == sat:
                        m = s2.model(); cmd = cmd_of_model(m); ok, what = check_native(m, cmd)
                        rp = rep.replay_file("c22_" + "".join(ch if ch.isalnum() else "_" for ch in name)[:60], "// engine=M case=c22\n// native(nativepix): %s\n// %s\n" % (" ".join(map(str, cmd)), what))
                        if ok:
                            rep.violations.append((name + ": " + what, rp)); rep.obligation(name, "violated", {"input": cmd, "note": what}); return m
                        rep.inconclusive.append("C22 enumerated counterexample for '%s' does not reproduce natively" % name); return None
            d["decided_by"] = "solver answered %s after %ss; the encoded term was then evaluated on all %d values of the domain (%.0fs)" % (r, dt, count, time.time() - t1)
            rep.nontrivial += 1
            rep.obligation(name, "holds", d)
            return None
        rep.inconclusive.append("solver answered %s on '%s' after %ss" % (r, name, dt))
        rep.obligation(name, "inconclusive", d)
        return None

    # ---- Q1: default pipeline == slope * x + intercept, for ALL doubles (NaN/inf included: structural equality)
    r1 = M.call(RESCALE_APPLY, [R({0: sl, 1: ic}), x])

    def nat_rescale(m, cmd):
        real = nat.ask(*cmd)
        want = model_f(m, fpAdd(RM, fpMul(RM, sl, x), ic))[1]
        return real != want, "real Rescale::apply gives %s, slope*x+intercept is %s" % (real, want)
    decide("Rescale::apply(x) == slope*x + intercept for all f64", Not(r1 == fpAdd(RM, fpMul(RM, sl, x), ic)),
           lambda m: ["rescale", model_f(m, sl)[1], model_f(m, ic)[1], model_f(m, x)[1]], nat_rescale)

    # ---- Q2: windowed pipeline == PS3.3 formula for every finite x, center, width (width clamped as WindowLevelTransform::new documents)
    for kind, disc, wmin in (("linear", 0, 1.0), ("exact", 1, 0.0), ("sigmoid", 2, 1.0)):
        t = M.call(WL_NEW, [BitVecVal(disc, 64), {0: w, 1: c}])
        got = M.call(WL_APPLY, [R(t), x, ymax])
        wc = If(fpIsNaN(w), FPVal(wmin, F64), fpMax(w, FPVal(wmin, F64)))
        want = spec_window(kind, x, wc, c, ymax)
        dom = And(fin(x), fin(c), fin(w), fin(ymax))

        def nat_wl(m, cmd, kind=kind, want=want):
            real = nat.ask(*cmd)
            wv = model_f(m, want)[1] if kind != "sigmoid" else "n/a"
            return (kind != "sigmoid" and real != wv), "real WindowLevelTransform::apply gives %s, the PS3.3 formula gives %s" % (real, wv)
        decide("WindowLevelTransform(%s).apply == PS3.3 formula for all finite x, center, width, y_max" % kind, And(dom, Not(got == want)),
               lambda m, kind=kind: ["wl", kind, model_f(m, w)[1], model_f(m, c)[1], model_f(m, x)[1], model_f(m, ymax)[1]], nat_wl)
    npan = [p for p in M.panics if not is_false(p[0])]
    # the sigmoid's own `assert!(ww >= 1.)` must be unreachable through WindowLevelTransform::new
    decide("no panic/overflow assertion reachable in the window functions through WindowLevelTransform::new", Or([p[0] for p in npan]) if npan else BoolVal(False),
           lambda m: ["wl", "sigmoid", model_f(m, w)[1], model_f(m, c)[1], model_f(m, x)[1], model_f(m, ymax)[1]],
           lambda m, cmd: (nat.ask(*cmd) == "PANIC", "panic condition: %s" % [p[1] for p in npan][:2]))

    # ---- Q3: stored value -> x: two's complement interpretation within bits stored; Lut::get ignores the bits above
    i = BitVec("i", 64)
    one_f, zero_f = fbits(1.0), fbits(0.0)
    for bits in range(1, 17):
        if not (bits in (1, 8, 12, 16) or tier == "thorough" or bits == 1 + seed % 16):
            continue
        size = 1 << bits
        for signed in (False, True):
            M.panics = []
            # the closure environment is built by running the real Lut::new_with_fn (signedness concrete: the capture point lies after its branches)
            got = M.call(NWF_CLO, [R(table_closure(bits, BoolVal(signed), (lambda v, pc: v))), i])["numcast"]
            sx = If(Extract(bits - 1, bits - 1, i) == 1, i - BitVecVal(size, 64), i) if signed else i
            want = fpSignedToFP(RM, sx, F64)

            def nat_x(m, cmd, bits=bits, signed=signed, size=size):
                idx = cmd[-1]
                real = nat.ask(*cmd)
                expect = idx - size if (signed and idx >= size // 2) else idx
                return real != str(expect), "real Lut::new_rescale(slope 1, intercept 0).get(%d) = %s, two's-complement value is %d" % (idx, real, expect)
            decide("bits_stored=%d %s: x fed to the transform == two's-complement value of the stored sample, all indices" % (bits, "signed" if signed else "unsigned"),
                   And(ULT(i, BitVecVal(size, 64)), Not(got == want)),
                   lambda m, bits=bits, signed=signed: ["lutr", "i32", bits, 1 if signed else 0, one_f, zero_f, m.eval(i, model_completion=True).as_long()], nat_x)
    smp = BitVec("smp", 16)
    for bits in (8, 12, 16):
        idx = M.call(GET, [R({0: "table", 1: BitVecVal((1 << bits) - 1, 32)}), smp])["index"]
        decide("Lut::get: table index == sample & (2^%d - 1) (bits above the high bit ignored)" % bits,
               Not(idx == ZeroExt(48, smp & BitVecVal((1 << bits) - 1, 16))), lambda m: ["sample", m.eval(smp, model_completion=True).as_long()],
               lambda m, cmd: (True, "encoding-level counterexample"))

    # ---- Q4: sampled parameters x ALL stored values: output within [0, y_max], never a conversion error, monotone for slope >= 0
    rnd = random.Random(seed)
    params = [(1.0, -1024.0, 50.0, 300.0), (1.0, 0.0, 127.5, 1.0), (2.0, -1000.0, 0.0, 0.0), (0.5, 10.0, 2048.0, 4096.0), (1.0, -32768.0, -100.0, 65536.0)]
    params += [(rnd.choice([0.25, 1.0, 3.0]), float(rnd.randint(-2000, 2000)), float(rnd.randint(-3000, 3000)) + rnd.choice([0.0, 0.5]), float(rnd.randint(0, 5000)))
               for _ in range(2 if tier == "quick" else 20)]
    combos = []
    for pi, (slope, intercept, center, width) in enumerate(params):
        for kind, disc in (("linear", 0), ("exact", 1)):
            for (bits, signed, ty, tmax) in ([(8, False, "u8", 255), (12, False, "u16", 65535), (16, True, "u16", 65535)] if tier == "quick" else
                                             [(b, s, t, tm) for b in (1, 7, 8, 10, 12, 16) for s in (False, True) for (t, tm) in (("u8", 255), ("u16", 65535)) if not (t == "u8" and b > 8)]):
                combos.append((slope, intercept, center, width, kind, disc, bits, signed, ty, tmax))
    if tier == "quick":
        combos = [combos[(seed * 5 + k * 7) % len(combos)] for k in range(8)]
    for (slope, intercept, center, width, kind, disc, bits, signed, ty, tmax) in combos:
        captured.clear()
        M.panics = []
        voi = M.call(WL_NEW, [BitVecVal(disc, 64), {0: FPVal(width, F64), 1: FPVal(center, F64)}])
        try:
            M.call(RW, [BitVecVal(bits, 16), BoolVal(signed), {0: FPVal(slope, F64), 1: FPVal(intercept, F64)}, voi])
        except Captured:
            pass
        clo = captured["args"][2]
        y_max_code = simplify(clo[2].get())
        tclo = captured["table_closure"]

        def f_of(index):
            return M.call(NWF_CLO, [R(tclo), index])["numcast"]
        i1, i2 = BitVecs("i1 i2", 64)
        i1n = (i1 + 1) & BitVecVal((1 << bits) - 1, 64)
        y1, y2 = f_of(i1), f_of(i1n)
        size = BitVecVal(1 << bits, 64)
        sx = lambda v: If(Extract(bits - 1, bits - 1, v) == 1, v - size, v) if signed else v
        tmaxf = FPVal(float(tmax), F64)
        label = "%s, bits_stored=%d %s, Lut<%s>, slope=%g intercept=%g center=%g width=%g" % (kind, bits, "signed" if signed else "unsigned", ty, slope, intercept, center, width)

        def cmd_lut(m, var=i1):
            return ["lut", ty, bits, 1 if signed else 0, fbits(slope), fbits(intercept), kind, fbits(width), fbits(center), m.eval(var, model_completion=True).as_long()]

        def nat_range(m, cmd):
            real = nat.ask(*cmd)
            return real in ("ERR", "PANIC"), "real Lut construction/get answers %s" % real
        # in range: 0 <= y <= max of the output type (so the conversion cannot fail) and y <= y_max
        decide("output within [0, y_max] and convertible for all stored values: " + label,
               And(ULT(i1, size), Or(fpIsNaN(y1), fpLT(y1, FPVal(0.0, F64)), fpGT(y1, tmaxf), fpGT(y1, y_max_code))), cmd_lut, nat_range, timeout_ms=90000,
               detail={"y_max_from_code": str(y_max_code)}, enum=(i1, 1 << bits))
        if slope >= 0:
            t1 = fpToUBV(RTZ(), y1, BitVecSort(32))
            t2 = fpToUBV(RTZ(), y2, BitVecSort(32))

            def nat_mono(m, cmd):
                a = nat.ask(*cmd)
                b = nat.ask(*cmd_lut(m, i1n))
                try:
                    return int(a) > int(b), "stored %s -> %s but larger stored %s -> %s" % (cmd[-1], a, cmd_lut(m, i1n)[-1], b)
                except ValueError:
                    return False, "native answered %s / %s" % (a, b)
            decide("monotone (adjacent stored values, hence all): " + label,
                   And(ULT(i1, size), sx(i1) < sx(i1n), UGT(t1, t2)), cmd_lut, nat_mono, timeout_ms=90000, enum=(i1, 1 << bits))
    # translator validation against the real functions on concrete points (incl. the repo's own test vectors)
    bad = []
    for (kind, wd, ce, xv, ym) in [("linear", 4096.0, 2048.0, 1024.0, 255.0), ("linear", 300.0, 50.0, -100.0, 255.0), ("linear", 300.0, 50.0, 50.0, 255.0),
                                   ("exact", 300.0, 50.0, 199.9, 65535.0), ("exact", 0.0, 10.0, 10.0, 255.0), ("linear", 1.0, 7.0, 6.5, 255.0), ("sigmoid", 0.5, 3.0, 3.0, 255.0)]:
        disc = {"linear": 0, "exact": 1, "sigmoid": 2}[kind]
        t = M.call(WL_NEW, [BitVecVal(disc, 64), {0: FPVal(wd, F64), 1: FPVal(ce, F64)}])
        got = simplify(M.call(WL_APPLY, [R(t), FPVal(xv, F64), FPVal(ym, F64)]))
        real = nat.ask("wl", kind, fbits(wd), fbits(ce), fbits(xv), fbits(ym))
        rep.validated += 1
        if kind == "sigmoid":
            continue
        s = Solver()
        s.add(fpToIEEEBV(got) != BitVecVal(int(real, 16), 64))
        if s.check() != unsat:
            bad.append("%s(%s): encoding %s, real %s" % (kind, (wd, ce, xv, ym), got, real))
    if bad:
        rep.inconclusive.append("encoding disagrees with native execution: " + "; ".join(bad[:2]))
    nat.close()
