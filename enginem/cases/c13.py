"""C13 (leaf actions on a flat object) — an attribute operation addressed by a tag changes the object exactly as documented: remove, empty,
set VR, set / set string, set-if-missing, replace act on the addressed attribute (creating it only where the action says so) and leave every
other attribute untouched.
Encoded (container mode): MIR of dicom_object::mem::InMemDicomObject::{apply, apply_leaf, apply_change_value_impl, put_element,
remove_element, get, invalidate_if_charset_changed} and of the dicom_core::DataElement constructors they call. The object holds 0-2
elements with SYMBOLIC tags (which may coincide with the addressed tag or with each other), the addressed tag is symbolic, the new value is
symbolic; BTreeMap is a finite map with symbolic keys (forks on key equality); the dictionary lookup of a missing attribute's VR is a
contract answering any VR."""
import os, re
from z3 import *
import core, mirdump, native
from cases import c28

d = core._d
pick = c28.pick
ACTIONS = ["Remove", "Empty", "SetVr", "Set", "SetStr", "SetIfMissing", "SetStrIfMissing", "Replace", "ReplaceStr", "PushStr", "PushI32", "PushU32", "PushI16", "PushU16", "PushF32", "PushF64", "Truncate"]
PV = ["Empty", "Strs", "Str", "Tags", "U8", "I16", "U16", "I32", "U32", "I64", "U64", "F32", "F64", "Date", "DateTime", "Time"]


class BMap:
    def __init__(self): self.items = []          # list of (tag Struct, value)

    def find(self, k, ctx):
        for i, (k2, _) in enumerate(self.items):
            if ctx.branch(And(k.f[0] == k2.f[0], k.f[1] == k2.f[1])): return i
        return None


def vr_enum(name):
    e = core.Enum(name, []); e.idx = core.VRNAMES.index(name); return e


def tagv(x): x = d(x); return core.Struct([x.f[0], x.f[1]])


def contracts(c, args, ctx):
    m = re.fullmatch(r"BTreeMap::<dicom_core::Tag, .*>::(get_mut|get|remove|insert|contains_key)(::<.*>)?", c)
    if m:
        mp = d(args[0]); meth = m.group(1)
        k = tagv(args[1])
        i = mp.find(k, ctx)
        if meth == "contains_key": return i is not None
        if meth in ("get", "get_mut"):
            if i is None: return core.Enum("None", [])
            return core.Enum("Some", [core.Ref(_Slot(mp, i))])
        if meth == "remove":
            if i is None: return core.Enum("None", [])
            _, v = mp.items.pop(i); return core.Enum("Some", [v])
        if meth == "insert":
            if i is None:
                mp.items.append((k, args[2])); return core.Enum("None", [])
            old = mp.items[i][1]; mp.items[i] = (mp.items[i][0], args[2]); return core.Enum("Some", [old])
    if re.fullmatch(r"<D as DataDictionary>::by_tag|<(dicom_dictionary_std::)?StandardDataDictionary as DataDictionary>::by_tag|<&D as DataDictionary>::by_tag", c):
        # the VR the dictionary gives for a tag that is not in the object: any exact VR, or none
        if not ctx.branch(Bool("dict_knows")): return core.Enum("None", [])
        k = pick(ctx, "dict_vr", 4)
        return core.Enum("Some", [("dict_entry", ["US", "LO", "SQ", "OB"][k])])
    if re.search(r"as DataDictionaryEntry>::vr$", c):
        e = d(args[0]); return ("virtual_vr", e[1])
    if re.fullmatch(r"(dicom_core::dictionary::)?VirtualVr::exact", c):
        return core.Enum("Some", [vr_enum(d(args[0])[1])])
    if re.fullmatch(r"DataElement::<.*>::vr", c): return d(d(args[0]).f[0]).f[1]          # (core.py's legacy contract assumes another element layout)
    if re.fullmatch(r"<DataElement<.*> as (dicom_core::header::)?Header>::tag", c): return tagv(d(d(args[0]).f[0]).f[0])
    if re.fullmatch(r"<DataElement<.*> as (dicom_core::header::)?HasLength>::length", c): return d(d(args[0]).f[0]).f[2]
    if re.fullmatch(r"DataElement::<.*>::value", c): return core.Ref(core.Cell(d(args[0]).f[1]))
    if re.fullmatch(r"DataElement::<.*>::header", c): return core.Ref(core.Cell(d(args[0]).f[0]))
    if re.fullmatch(r"<(dicom_core::)?PrimitiveValue as Into<(DicomValue|Value)<.*>>>::into|<(dicom_core::value::)?(DicomValue|Value)<.*> as From<(dicom_core::)?PrimitiveValue>>::from", c):
        e = core.Enum("Primitive", [args[0]]); e.idx = 0; return e
    if re.fullmatch(r"<(DataSetSequence|dicom_core::value::DataSetSequence)<.*> as Into<(DicomValue|Value)<.*>>>::into", c):
        e = core.Enum("Sequence", [args[0]]); e.idx = 1; return e
    if re.fullmatch(r"<T as Into<(DicomValue|Value)<.*>>>::into", c):
        v = d(args[0])
        if isinstance(v, core.Enum) and v.variant in ("Primitive", "Sequence", "PixelSequence"): return v
        if isinstance(v, core.Enum) and v.variant in PV:
            e = core.Enum("Primitive", [v]); e.idx = 0; return e
        e = core.Enum("Sequence", [v]); e.idx = 1; return e
    if re.fullmatch(r"<D as Clone>::clone|<&D as Clone>::clone", c): return args[0]
    if re.fullmatch(r"<dicom_core::Tag as PartialEq>::eq", c):
        def tg(x):
            x = d(x)
            if isinstance(x, tuple) and x[0] == "const" and x[1].endswith("SPECIFIC_CHARACTER_SET"): return core.Struct([BitVecVal(0x0008, 16), BitVecVal(0x0005, 16)])
            return x
        a, b = tg(args[0]), tg(args[1]); return And(a.f[0] == b.f[0], a.f[1] == b.f[1])
    if re.fullmatch(r"<(dicom_core::)?VR as PartialEq>::ne", c):
        return d(args[0]).variant != d(args[1]).variant
    if re.fullmatch(r"<AttributeSelector as Clone>::clone", c): return args[0]
    if re.fullmatch(r"(dicom_core::ops::)?AttributeSelector::iter", c): return core.SliceIter([core.Ref(core.Cell(x)) for x in d(d(args[0]).f[0]).items])
    if re.fullmatch(r"<SmallVec<\[.*\]> as DerefMut>::deref_mut|<SmallVec<\[.*\]> as Deref>::deref", c): return d(args[0])
    if re.fullmatch(r"core::slice::<impl \[.*\]>::get_mut::<usize>", c):
        xs = d(args[0]).items; i = core.concrete_index(args[1])
        return core.Enum("Some", [core.Ref(_ListSlot(xs, i))]) if i < len(xs) else core.Enum("None", [])
    if re.fullmatch(r"core::slice::<impl \[.*\]>::last_mut", c):
        xs = d(args[0]).items
        return core.Enum("Some", [core.Ref(_ListSlot(xs, len(xs) - 1))]) if xs else core.Enum("None", [])
    if re.fullmatch(r"SmallVec::<\[.*\]>::len", c): return len(d(args[0]).items)
    if re.fullmatch(r"InMemDicomObject::<D>::new_empty_with_dict", c):
        return core.Struct([BMap(), args[0], core.Struct([BitVecVal(0xFFFFFFFF, 32)]), False])
    if re.fullmatch(r"(dicom_core::value::)?DataSetSequence::<.*>::length|<DataSetSequence<.*> as HasLength>::length", c): return d(args[0]).f[1]
    if re.fullmatch(r"(dicom_core::value::)?DataSetSequence::<.*>::empty", c):
        return core.Struct([core.VecV([]), core.Struct([BitVecVal(0xFFFFFFFF, 32)])])
    if re.fullmatch(r"<VR as PartialEq>::eq|<dicom_core::VR as PartialEq>::eq", c):
        a, b = d(args[0]), d(args[1])
        if not (hasattr(a, "variant") and hasattr(b, "variant")): raise core.NotEncodable("VR comparison of %r and %r" % (getattr(a, "f", a), getattr(b, "f", b)))
        return a.variant == b.variant
    if re.fullmatch(r"<dicom_core::PrimitiveValue as From<&str>>::from", c): return core.Enum("Str", [core.Str(list(d(args[0]).b))])
    if re.fullmatch(r"<Cow<'_, str> as Deref>::deref", c): return d(args[0])
    if re.search(r"Snafu(::<.*>)?::fail(::<.*>)?$", c): return core.Enum("Err", [("opaque", c[:40])])
    return NotImplemented


class _ListSlot(core.Cell):
    """a cell that aliases element i of a list"""
    def __init__(self, xs, i): self.xs, self.i = xs, i
    @property
    def v(self): return self.xs[self.i]
    @v.setter
    def v(self, nv): self.xs[self.i] = nv


class _Slot(core.Cell):
    """a cell that aliases the value stored under index i of a finite map"""
    def __init__(self, mp, i): self.mp, self.i = mp, i
    @property
    def v(self): return self.mp.items[self.i][1]
    @v.setter
    def v(self, nv): self.mp.items[self.i] = (self.mp.items[self.i][0], nv)


def run(rep, tier, seed, known, part):
    po, _ = mirdump.dump("dicom-object")
    pc_, _ = mirdump.dump("dicom-core")
    core.load([po, pc_])
    for p in (po, pc_): os.remove(p)
    core.EXTRA_CONTRACTS[:] = [contracts]
    core.ENUMS.update({"AttributeAction::" + n: k for k, n in enumerate(ACTIONS)})
    core.ENUMS.update({"PrimitiveValue::" + n: k for k, n in enumerate(PV)})
    core.ENUMS.update({"Value::Primitive": 0, "Value::Sequence": 1, "Value::PixelSequence": 2, "DicomValue::Primitive": 0, "DicomValue::Sequence": 1, "DicomValue::PixelSequence": 2})
    core.ENUMS.update({"VR::" + n: k for k, n in enumerate(core.VRNAMES)})
    core.ENUMS.update({"AttributeSelectorStep::Tag": 0, "AttributeSelectorStep::Nested": 1})
    LEAF = next(n for n in core.FNS if n.endswith("::apply_leaf") and "InMemDicomObject" in core.FNS[n].ptext)
    rep.functions += ["dicom_object::mem::InMemDicomObject::{apply_leaf, apply_change_value_impl, put_element, remove_element, get, invalidate_if_charset_changed}", "dicom_core::header::DataElement::{new, empty, into_parts, vr}"]
    nat = native.Native()
    try:
        for action in (["Remove", "Empty", "SetVr", "Set", "SetIfMissing", "Replace", "SetStr", "SetEmpty", "ReplaceEmpty"] if tier == "quick" else ["Remove", "Empty", "SetVr", "Set", "SetStr", "SetIfMissing", "SetStrIfMissing", "Replace", "ReplaceStr", "SetEmpty", "ReplaceEmpty"]):
            for n_el in ((1, 2) if tier == "quick" else (0, 1, 2)):
                if os.environ.get("C13_ONLY") == "nested": continue
                if os.environ.get("C13_ONLY") == "empty" and not action.endswith("Empty"): continue
                if action in ("SetEmpty", "ReplaceEmpty") and n_el == 0: continue
                one(rep, nat, LEAF, action, n_el)
        APPLY = next(n for n in core.FNS if re.search(r"<impl at object/src/mem.rs:[^>]*>::apply$", n) and "InMemDicomObject" in core.FNS[n].ptext)
        rep.functions += ["dicom_object::mem::InMemDicomObject::apply (selector navigation)", "dicom_core::header::DataElement::items_mut, dicom_core::ops::AttributeAction::is_constructive"]
        for action in ("Set", "Replace", "Remove"):
            nested(rep, nat, APPLY, action, tier)
    finally:
        nat.close()
        core.EXTRA_CONTRACTS[:] = []


def elem(tag, vrname, pv):
    """DataElement { header: DataElementHeader { tag, vr, len }, value: Value::Primitive(pv) }"""
    val = core.Enum("Primitive", [pv]); val.idx = 0
    return core.Struct([core.Struct([tag, vr_enum(vrname), core.Struct([BitVecVal(2, 32)])]), val])


def describe(e):
    """(vr name, value kind, payload) of a stored element"""
    e = d(e)
    vrn = d(e.f[0]).f[1].variant
    val = d(e.f[1])
    if val.variant == "Primitive":
        pv = d(val.f[0])
        payload = None
        if pv.variant == "U16": payload = [x for x in d(pv.f[0]).items]
        elif pv.variant == "Str": payload = list(d(pv.f[0]).b)
        return (vrn, pv.variant, payload)
    if val.variant == "Sequence": return (vrn, "Sequence", len(core.seq_store(d(d(val.f[0]).f[0]))[0]) if d(val.f[0]).f else 0)
    return (vrn, val.variant, None)


def one(rep, nat, LEAF, action, n_el):
    box = {}

    def build(ctx):
        tags = [core.Struct([BitVec("g%d" % k, 16), BitVec("e%d" % k, 16)]) for k in range(n_el)]
        for k in range(n_el):
            for j in range(k): ctx.pc.append(Not(And(tags[k].f[0] == tags[j].f[0], tags[k].f[1] == tags[j].f[1])))      # a map holds distinct keys
        vals = [BitVec("val%d" % k, 16) for k in range(n_el)]
        mp = BMap()
        for k in range(n_el):
            mp.items.append((tags[k], elem(tags[k], ["US", "LO"][k % 2], core.Enum("U16", [core.VecV([vals[k]])]))))
        obj = core.Struct([mp, core.Struct([]), core.Struct([BitVecVal(0, 32)]), False])
        target = core.Struct([BitVec("tg", 16), BitVec("te", 16)])
        newv = BitVec("newval", 16)
        newpv = core.Enum("U16", [core.VecV([newv])])
        newstr = core.Str([BitVec("ns0", 8), BitVec("ns1", 8)])
        for b in newstr.b: ctx.pc.append(And(UGE(b, 0x30), ULE(b, 0x7A)))
        vr_k = pick(ctx, "newvr", 3)
        newvr = ["OW", "UN", "SS"][vr_k]
        empty_value = action.endswith("Empty") and action != "Empty"           # SetEmpty / ReplaceEmpty: Set / Replace with PrimitiveValue::Empty
        real_action = action[:-5] if empty_value else action
        if empty_value:
            newpv = core.Enum("Empty", [])
            # the first stored element is a data set sequence with one (empty) item
            item = core.Struct([BMap(), core.Struct([]), core.Struct([BitVecVal(0xFFFFFFFF, 32)]), False])
            seqval = core.Enum("Sequence", [core.Struct([core.VecV([item]), core.Struct([BitVecVal(0xFFFFFFFF, 32)])])]); seqval.idx = 1
            mp.items[0] = (tags[0], core.Struct([core.Struct([tags[0], vr_enum("SQ"), core.Struct([BitVecVal(0xFFFFFFFF, 32)])]), seqval]))
        arg = {"Remove": [], "Empty": [], "SetVr": [vr_enum(newvr)], "Set": [newpv], "SetIfMissing": [newpv], "Replace": [newpv],
               "SetStr": [newstr], "SetStrIfMissing": [newstr], "ReplaceStr": [newstr]}[real_action]
        act = core.Enum(real_action, arg); act.idx = ACTIONS.index(real_action)
        before = [(tags[k], describe(mp.items[k][1])) for k in range(n_el)]
        r = core.run_fn(LEAF, [core.Ref(core.Cell(obj)), target, act], ctx)
        # which stored element does the target address on this path?
        hit = None
        for k in range(n_el):
            if ctx.branch(And(target.f[0] == tags[k].f[0], target.f[1] == tags[k].f[1])): hit = k; break
        dict_vr = None
        if hit is None and action in ("Set", "SetStr", "SetIfMissing", "SetStrIfMissing", "SetEmpty"):
            dict_vr = ["US", "LO", "SQ", "OB"][pick(ctx, "dict_vr", 4)] if ctx.branch(Bool("dict_knows")) else "UN"
        box["inst"] = (hit, dict_vr, newvr)
        problems, conds = [], []
        if r.variant != "Ok": problems.append("the operation returned an error")
        # reference model: list of (tag, description) expected afterwards
        want = list(before)
        is_str = action in ("SetStr", "SetStrIfMissing", "ReplaceStr")
        newdesc_kind, newdesc_payload = ("Str", list(newstr.b)) if is_str else ("U16", [newv])
        if empty_value:
            # documented: an empty value given to a sequence attribute yields an empty data set sequence, otherwise an empty primitive value
            def emptied(vrn): return ("Sequence", 0) if vrn == "SQ" else ("Empty", None)
            if hit is not None: want[hit] = (want[hit][0], (want[hit][1][0],) + emptied(want[hit][1][0]))
            elif real_action == "Set": want.append((target, (dict_vr,) + emptied(dict_vr)))
        if action == "Remove":
            if hit is not None: want.pop(hit)
        elif action == "Empty":
            if hit is not None: want[hit] = (want[hit][0], (want[hit][1][0], "Empty", None))
        elif action == "SetVr":
            if hit is not None: want[hit] = (want[hit][0], (newvr,) + want[hit][1][1:])
            else: want.append((target, (newvr, "Empty", None)))
        elif empty_value: pass
        elif action in ("Set", "SetStr"):
            if hit is not None: want[hit] = (want[hit][0], (want[hit][1][0], newdesc_kind, newdesc_payload))
            else: want.append((target, (dict_vr, newdesc_kind, newdesc_payload)))
        elif action in ("SetIfMissing", "SetStrIfMissing"):
            if hit is None: want.append((target, (dict_vr, newdesc_kind, newdesc_payload)))
        elif action in ("Replace", "ReplaceStr"):
            if hit is not None: want[hit] = (want[hit][0], (want[hit][1][0], newdesc_kind, newdesc_payload))
        got = [(k, describe(v)) for k, v in mp.items]
        box["got"], box["want"] = [g[1][:2] for g in got], [w[1][:2] for w in want]
        box["want_full"], box["created"] = want, (hit is None)
        if len(got) != len(want): problems.append("%d attributes afterwards, the documented semantics give %d" % (len(got), len(want)))
        else:
            # match by tag: every expected attribute must be present with the expected VR, kind and payload
            for (wt, wd) in want:
                found = None
                for (gt, gd) in got:
                    if ctx.branch(And(gt.f[0] == wt.f[0], gt.f[1] == wt.f[1])): found = gd; break
                if found is None: problems.append("an expected attribute is missing afterwards"); break
                if found[0] != wd[0]: problems.append("VR %s afterwards, expected %s" % (found[0], wd[0]))
                if found[1] != wd[1]: problems.append("value kind %s afterwards, expected %s" % (found[1], wd[1]))
                elif isinstance(wd[2], int) or isinstance(found[2], int):
                    if found[2] != wd[2]: problems.append("sequence of %s items afterwards, expected %s" % (found[2], wd[2]))
                elif wd[2] is not None and found[2] is not None:
                    if len(found[2]) != len(wd[2]): problems.append("value of %d items afterwards, expected %d" % (len(found[2]), len(wd[2])))
                    else:
                        for a, b in zip(found[2], wd[2]): conds.append(a != b)
        box["problems"] = problems
        box["checked"] = box.get("checked", 0) + 1
        ctx.bad = BoolVal(True) if problems else (Or(conds) if conds else BoolVal(False))
        return ctx.bad

    res = core.explore(build, max_paths=20000)
    rep.nontrivial += res["paths"]
    name = "%s on an object of %d element(s) with symbolic tags, addressed tag symbolic: the addressed attribute changes as documented, the others are untouched" % (action, n_el)
    if res["violation"]:
        model = res["violation"][0]
        g = lambda nm, bits: model.eval(BitVec(nm, bits), model_completion=True).as_long()
        words = ["apply_leaf", action, "%04x%04x" % (g("tg", 16), g("te", 16)), ["OW", "UN", "SS"][g("newvr", 8) % 3], g("newval", 16), "%02x%02x" % (g("ns0", 8), g("ns1", 8))]
        for k in range(n_el): words += ["%04x%04x" % (g("g%d" % k, 16), g("e%d" % k, 16)), g("val%d" % k, 16)]
        real = nat.ask(*words)
        rp = rep.replay_file("c13_%s_%d" % (action, n_el), "// engine=M case=c13\n// native: %s   (action, addressed tag, new VR, new value, new text hex, then tag and value of each stored element)\n// encoding: %s (got %s, documented %s)\n// real: %s\n" % (" ".join(map(str, words)), box.get("problems"), box.get("got"), box.get("want"), real))
        # compare the real object with the documented semantics evaluated on the model's values (the VR of a created attribute comes from the
        # real dictionary there, so it is not compared)
        def ev(x): return x if isinstance(x, int) else model.eval(x, model_completion=True).as_long()
        expect = {}
        for (wt, wd) in box.get("want_full", []):
            key = "%04x%04x" % (ev(wt.f[0]), ev(wt.f[1]))
            payload = None if wd[2] is None else (wd[2] if isinstance(wd[2], int) else [ev(x) for x in wd[2]])
            expect[key] = (wd[0], wd[1], payload)
        realmap = {}
        if real.startswith("DUMP"):
            for ent in [x for x in real[5:].split(";") if x]:
                t_, vr_, kind_, pay_ = ent.split(":")
                realmap[t_] = (vr_, kind_, pay_)
        tkey = "%04x%04x" % (g("tg", 16), g("te", 16))
        diffs = []
        if set(expect) != set(realmap): diffs.append("attributes %s, documented %s" % (sorted(realmap), sorted(expect)))
        else:
            for k_, (vr_, kind_, pay_) in expect.items():
                rv = realmap[k_]
                if not (box.get("created") and k_ == tkey) and rv[0] != vr_: diffs.append("%s has VR %s, documented %s" % (k_, rv[0], vr_))
                if rv[1] != kind_: diffs.append("%s holds %s, documented %s" % (k_, rv[1], kind_))
                elif kind_ == "Sequence":
                    if str(pay_) != rv[2]: diffs.append("%s sequence of %s items, documented %s" % (k_, rv[2], pay_))
                elif pay_ is not None:
                    rp_ = [int(x) for x in rv[2].split(",")] if kind_ == "U16" and rv[2] else (list(bytes.fromhex(rv[2])) if kind_ == "Str" else [])
                    if rp_ != pay_: diffs.append("%s value %s, documented %s" % (k_, rp_, pay_))
        if not real.startswith("DUMP"): diffs.append(real)
        real = ("DIFF " + "; ".join(diffs) + " | " + real) if diffs else real
        if real.startswith("DIFF"):
            rep.violations.append(("attribute operation %s: %s; real object afterwards: %s" % (action, box.get("problems") or "a value differs", real), rp))
            rep.obligation(name, "violated", {"native": real, "instance": words})
        else:
            rep.inconclusive.append("C13 counterexample does not reproduce natively: %s -> %s (%s)" % (words, real, box.get("problems")))
            rep.obligation(name, "inconclusive", {"native": real})
    else:
        rep.validated += 1
        if not box.get("checked"): rep.inconclusive.append("vacuous: no path of '%s' reached the check" % name[:60])
        rep.obligation(name, "holds", {"paths": res["paths"]})


# ------------------------------------------------------------------ nested selectors (one level)
def nested(rep, nat, APPLY, action, tier):
    """selector  (sequence tag)[item].(leaf tag)  on an object that may hold that sequence with 0-1 items; the solver chooses whether the
    sequence tag hits the stored sequence, a stored primitive element or nothing, and the item index 0..2"""
    box = {}

    def empty_obj(): return core.Struct([BMap(), core.Struct([]), core.Struct([BitVecVal(0xFFFFFFFF, 32)]), False])

    def build(ctx):
        n_items = pick(ctx, "n_items", 2)
        seq_tag = core.Struct([BitVec("sg", 16), BitVec("se", 16)])
        prim_tag = core.Struct([BitVec("pg", 16), BitVec("pe", 16)])
        ctx.pc.append(Not(And(seq_tag.f[0] == prim_tag.f[0], seq_tag.f[1] == prim_tag.f[1])))
        items = []
        for k in range(n_items):
            it = empty_obj(); items.append(it)
        seqval = core.Enum("Sequence", [core.Struct([core.VecV(items), core.Struct([BitVecVal(0xFFFFFFFF, 32)])])]); seqval.idx = 1
        seq_el = core.Struct([core.Struct([seq_tag, vr_enum("SQ"), core.Struct([BitVecVal(0xFFFFFFFF, 32)])]), seqval])
        mp = BMap()
        mp.items.append((seq_tag, seq_el))
        mp.items.append((prim_tag, elem(prim_tag, "US", core.Enum("U16", [core.VecV([BitVec("pval", 16)])]))))
        obj = core.Struct([mp, core.Struct([]), core.Struct([BitVecVal(0, 32)]), False])
        sel_tag = core.Struct([BitVec("ng", 16), BitVec("ne", 16)])
        idx = pick(ctx, "item", 3)
        leaf = core.Struct([BitVec("lg", 16), BitVec("le", 16)])
        newv = BitVec("newval", 16)
        step0 = core.Enum("Nested", [sel_tag, BitVecVal(idx, 32)]); step0.idx = 1
        step1 = core.Enum("Tag", [leaf]); step1.idx = 0
        selector = core.Struct([core.VecV([step0, step1])])
        arg = {"Set": [core.Enum("U16", [core.VecV([newv])])], "Replace": [core.Enum("U16", [core.VecV([newv])])], "Remove": []}[action]
        act = core.Enum(action, arg); act.idx = ACTIONS.index(action)
        op = core.Struct([selector, act])
        r = core.run_fn(APPLY, [core.Ref(core.Cell(obj)), op], ctx)
        constructive = action == "Set"
        hits_seq = ctx.branch(And(sel_tag.f[0] == seq_tag.f[0], sel_tag.f[1] == seq_tag.f[1]))
        hits_prim = (not hits_seq) and ctx.branch(And(sel_tag.f[0] == prim_tag.f[0], sel_tag.f[1] == prim_tag.f[1]))
        problems = []
        # the documented outcome
        if hits_seq:
            if idx < n_items: want = ("ok", idx, False)
            elif idx == n_items and constructive: want = ("ok", idx, True)
            else: want = ("err",)
        elif hits_prim: want = ("err",)
        else:
            if constructive:
                knows = ctx.branch(Bool("dict_knows"))
                dvr = ["US", "LO", "SQ", "OB"][pick(ctx, "dict_vr", 4)] if knows else "UN"
                want = ("err",) if dvr not in ("SQ", "UN") else (("created", dvr) if idx == 0 else ("err_after_create", dvr))
            else: want = ("err",)
        box["want"] = want
        got_ok = r.variant == "Ok"
        if want[0] in ("err", "err_after_create") and got_ok: problems.append("the operation succeeded, the documented outcome is an error")
        if want[0] in ("ok", "created") and not got_ok: problems.append("the operation failed, the documented outcome is success")
        # effects
        stored = {("seq" if k is seq_tag else "prim" if k is prim_tag else "new"): v for k, v in mp.items}
        if not constructive and not got_ok:
            if len(mp.items) != 2: problems.append("a failing non-constructive action changed the set of attributes")
            cur_items = core.seq_store(d(d(d(stored["seq"]).f[1]).f[0]).f[0])[0]
            if len(cur_items) != n_items: problems.append("a failing non-constructive action changed the number of items")
        if hits_seq and want[0] == "err" and not got_ok:
            # reference model: only the NEXT item is created; an index past it is an error that leaves the sequence as it was
            cur_items = core.seq_store(d(d(d(stored["seq"]).f[1]).f[0]).f[0])[0]
            if len(cur_items) != n_items: problems.append("the failing action left %d items in the addressed sequence, it held %d" % (len(cur_items), n_items))
            box["stray"] = len(cur_items) != n_items
        if want[0] == "ok" and got_ok:
            cur_items = core.seq_store(d(d(d(stored["seq"]).f[1]).f[0]).f[0])[0]
            if len(cur_items) != n_items + (1 if want[2] else 0): problems.append("%d items afterwards, expected %d" % (len(cur_items), n_items + (1 if want[2] else 0)))
            else:
                tgt = d(cur_items[want[1]])
                inner = d(tgt.f[0]).items
                if action == "Set" and len(inner) != 1: problems.append("the addressed item holds %d attributes after Set, expected 1" % len(inner))
                if action in ("Replace", "Remove") and len(inner) != 0: problems.append("the addressed (empty) item holds %d attributes after %s" % (len(inner), action))
        if want[0] == "created" and got_ok:
            if "new" not in stored: problems.append("the missing sequence was not created")
            else:
                nv = d(d(stored["new"]).f[1])
                if nv.variant != "Sequence": problems.append("the created attribute is not a sequence")
                elif len(core.seq_store(d(d(nv.f[0]).f[0]))[0]) != 1: problems.append("the created sequence does not hold exactly the new item")
        box["problems"] = problems
        box["checked"] = box.get("checked", 0) + 1
        box["inst"] = (n_items, idx)
        ctx.bad = BoolVal(bool(problems))
        return ctx.bad

    res = core.explore(build, max_paths=20000)
    rep.nontrivial += res["paths"]
    name = "%s through the selector (sequence tag)[item 0..2].(leaf tag) on an object holding a sequence of 0-1 items and a primitive element, all tags symbolic: outcome and effects as documented" % action
    if res["violation"]:
        model, vctx = res["violation"][0], res["violation"][2]
        # the dictionary is a contract in the encoding: for the replay prefer a selector tag on which the real dictionary answers what the path assumed
        # (an unknown tag when it assumed "not in the dictionary", ReferencedSeriesSequence when it assumed SQ)
        for pref in ([BitVec("ng", 16) == 0x7776, BitVec("ne", 16) == 0x0411, Not(Bool("dict_knows"))], [BitVec("ng", 16) == 0x0008, BitVec("ne", 16) == 0x1115, Bool("dict_knows"), BitVec("dict_vr", 8) == 2]):
            s2 = Solver(); s2.add(vctx.pc + [vctx.bad] + pref)
            if s2.check() == sat: model = s2.model(); break
        g = lambda nm, bits: model.eval(BitVec(nm, bits), model_completion=True).as_long()
        n_items, idx = box["inst"]
        words = ["apply_nested", action, n_items, "%04x%04x" % (g("sg", 16), g("se", 16)), "%04x%04x" % (g("pg", 16), g("pe", 16)), "%04x%04x" % (g("ng", 16), g("ne", 16)), idx, "%04x%04x" % (g("lg", 16), g("le", 16)), g("newval", 16)]
        real = nat.ask(*words)
        rp = rep.replay_file("c13_nested_%s" % action, "// engine=M case=c13 (nested)\n// native: %s   (action, items in the stored sequence, sequence tag, primitive tag, selector tag, item index, leaf tag, value)\n// encoding: %s (documented outcome %s)\n// real: %s\n" % (" ".join(map(str, words)), box.get("problems"), box.get("want"), real))
        want = box.get("want", ("?",))
        real_ok = real.startswith("OK")
        bad = (want[0] in ("err", "err_after_create") and real_ok) or (want[0] == "ok" and not real_ok)
        stray = (not real_ok) and want[0] == "err" and box.get("stray") and ("items=%d_" % n_items) not in real      # a failing action changed the number of items
        if bad or stray or (real_ok and want[0] == "ok" and ("items=%d" % (n_items + (1 if want[2] else 0))) not in real):
            rep.violations.append(("nested attribute operation %s: %s; real: %s" % (action, box.get("problems"), real), rp))
            rep.obligation(name, "violated", {"native": real, "instance": words})
        else:
            rep.inconclusive.append("C13 nested counterexample does not reproduce natively: %s -> %s (%s, documented %s)" % (words, real, box.get("problems"), want))
            rep.obligation(name, "inconclusive", {"native": real})
    else:
        rep.validated += 1
        if not box.get("checked"): rep.inconclusive.append("vacuous: no path of '%s' reached the check" % name[:60])
        rep.obligation(name, "holds", {"paths": res["paths"]})
