"""C04 — every byte stream produced by the data set writer is structurally valid PS3.5, with exact lengths, delimiters and padding, and
the encoding layer's byte count equals the bytes written.
Encoded (container mode): MIR of dicom_parser::dataset::write::DataSetWriter::{write, write_impl}, dicom_parser::stateful::encode::
StatefulEncoder::{encode_element_header, encode_item_header, encode_item_delimiter, encode_sequence_delimiter, encode_primitive_element,
encode_text_element, encode_texts_element, convert_text_untrailed, write_bytes, write_raw_bytes, encode_offset_table}, even_len,
dicom_core::PrimitiveValue::calculate_byte_len and the header / primitive encoders of dicom-encoding for the three uncompressed codecs.
The output is a byte vector of concrete shape with symbolic content, read by an independent PS3.5 walker written here."""
import os, re
from z3 import *
import core, mirdump, native, fmtlib

d = core._d
UNDEF = 0xFFFFFFFF
TOKS = ["ElementHeader", "SequenceStart", "PixelSequenceStart", "SequenceEnd", "ItemStart", "ItemEnd", "PrimitiveValue", "ItemValue", "OffsetTable"]
LONG_VRS = {"OB", "OD", "OF", "OL", "OV", "OW", "SQ", "UC", "UN", "UR", "UT", "SV", "UV"}
TEXT_PAD_SPACE = {"AE", "AS", "CS", "DA", "DS", "DT", "IS", "LO", "LT", "PN", "SH", "ST", "TM", "UC", "UR", "UT"}


class Sink(core.Str):
    pass


class FailSink(Sink):
    """a writer whose k-th call fails, k chosen by the solver (C34); fail_at is a z3 term, calls counts write calls"""
    def __init__(self, fail_at, zero=None):
        # zero: z3 Bool - the failing call is a zero-length write (Ok(0) from write, WriteZero from write_all) instead of an Err
        Sink.__init__(self, []); self.fail_at, self.calls, self.failed, self.zero, self.kind = fail_at, 0, False, zero, None


def io_fails(sink, ctx):
    if not isinstance(sink, FailSink) or sink.failed: return False
    sink.calls += 1
    if ctx.branch(sink.fail_at == sink.calls):
        sink.failed = True
        sink.kind = "zero" if (sink.zero is not None and ctx.branch(sink.zero)) else "err"
        return True
    return False


IO_ERR = ("opaque", "std::io::Error")


def norm(v):
    if isinstance(v, int): return v & 0xFF
    v = simplify(v)
    return v.as_long() if is_bv_value(v) else v


def to_bytes(v, n, big):
    if isinstance(v, int):
        bs = [(v >> (8 * k)) & 0xFF for k in range(n)]
    else:
        if is_fp(v): v = fpToIEEEBV(v)
        bs = [norm(Extract(8 * k + 7, 8 * k, v)) for k in range(n)]
    return bs[::-1] if big else bs


def vr(name):
    e = core.Enum(name, []); e.idx = core.VRNAMES.index(name); return e


def tok(name, fields):
    e = core.Enum(name, fields); e.idx = TOKS.index(name); return e


def header(g, e, vrname, ln):
    return core.Struct([core.Struct([g, e]), vr(vrname), core.Struct([ln])])


# ------------------------------------------------------------------ independent PS3.5 walker
class Walk:
    """walks bytes whose structural fields (VR codes, lengths, delimiter tags) must be concrete; element tags may be symbolic (then they
    are data element tags: the instances assume group != FFFE). Collects python-level problems and z3 conditions that would be violations."""

    def __init__(self, b, ts, seq_tags=()):
        self.b, self.ts, self.problems, self.conds, self.seq_tags = b, ts, [], [], set(seq_tags)
        self.big = ts == "ebe"

    def u(self, at, n):
        bs = self.b[at:at + n]
        if len(bs) < n: raise IndexError
        if not all(isinstance(x, int) for x in bs): return None
        return int.from_bytes(bytes(bs), "big" if self.big else "little")

    def tag(self, at):
        g, e = self.u(at, 2), self.u(at + 2, 2)
        return (g, e)

    def dataset(self, at, end, in_item):
        """elements until `end` (defined) or until an item delimiter (end None, in_item) ; returns the offset after the data set"""
        while True:
            if end is not None and at == end: return at
            if end is not None and at > end:
                self.problems.append("content runs %d byte(s) past its declared end %d" % (at - end, end)); return at
            if at >= len(self.b):
                if end is None and in_item: self.problems.append("undefined-length item not closed by an item delimiter")
                elif end is not None: self.problems.append("stream ends at %d before the declared end %d" % (at, end))
                return at
            g, e = self.tag(at)
            if g == 0xFFFE:
                if e == 0xE00D and end is None and in_item:
                    if self.u(at + 4, 4) != 0: self.problems.append("item delimiter with non-zero length at %d" % at)
                    return at + 8
                self.problems.append("unexpected delimiter (FFFE,%04X) at %d" % (e or 0, at)); return len(self.b)
            at = self.element(at, g, e)
            if at is None: return len(self.b)

    def element(self, at, g, e):
        b = self.b
        if self.ts == "ile":
            vrn = "SQ" if (g, e) in self.seq_tags else ("OB" if (g, e) == (0x7FE0, 0x0010) else "UN")
            ln = self.u(at + 4, 4); at += 8
        else:
            v0, v1 = b[at + 4], b[at + 5]
            if not (isinstance(v0, int) and isinstance(v1, int)):
                self.problems.append("symbolic VR code at %d" % at); return None
            vrn = bytes([v0, v1]).decode("latin-1")
            if vrn not in core.VRNAMES:
                self.problems.append("invalid VR code %r at %d" % (vrn, at)); return None
            if vrn in LONG_VRS:
                if self.u(at + 6, 2) != 0: self.problems.append("reserved bytes of the long header form not zero at %d" % at)
                ln = self.u(at + 8, 4); at += 12
            else:
                ln = self.u(at + 6, 2); at += 8
        if ln is None:
            self.problems.append("length field at %d is not determined by the shape of the input" % at); return None
        if vrn == "SQ" or (ln == UNDEF and vrn in ("UN",)):
            return self.sequence(at, ln)
        if ln == UNDEF:
            if (g, e) == (0x7FE0, 0x0010) or vrn in ("OB", "OW"):
                return self.pixel_sequence(at)
            self.problems.append("undefined length on a %s element at %d" % (vrn, at)); return None
        if ln % 2: self.problems.append("odd value length %d at %d" % (ln, at))
        if at + ln > len(b): self.problems.append("value of %d bytes at %d runs past the end of the stream (%d)" % (ln, at, len(b))); return None
        return at + ln

    def sequence(self, at, ln):
        end = None if ln == UNDEF else at + ln
        if end is not None and ln % 2: self.problems.append("odd sequence length %d" % ln)
        while True:
            if end is not None and at == end: return at
            if end is not None and at > end:
                self.problems.append("sequence content runs past its declared end"); return at
            if at >= len(self.b):
                self.problems.append("sequence not closed (stream ends at %d)" % at); return at
            g, e = self.tag(at)
            if (g, e) == (0xFFFE, 0xE0DD):
                if end is not None: self.problems.append("sequence delimiter inside a defined-length sequence at %d" % at)
                if self.u(at + 4, 4) != 0: self.problems.append("sequence delimiter with non-zero length at %d" % at)
                return at + 8
            if (g, e) != (0xFFFE, 0xE000):
                self.problems.append("expected an item at %d, found %s" % (at, (g, e))); return len(self.b)
            iln = self.u(at + 4, 4)
            if iln is None:
                self.problems.append("item length at %d is not determined by the shape of the input" % at); return len(self.b)
            at += 8
            if iln == UNDEF:
                at = self.dataset(at, None, True)
            else:
                if iln % 2: self.problems.append("odd item length %d" % iln)
                if end is not None and at + iln > end: self.problems.append("item of %d bytes runs past the end of its sequence" % iln)
                at = self.dataset(at, at + iln, True)

    def pixel_sequence(self, at):
        while True:
            if at >= len(self.b):
                self.problems.append("encapsulated pixel data not closed by a sequence delimiter"); return at
            g, e = self.tag(at)
            if (g, e) == (0xFFFE, 0xE0DD):
                if self.u(at + 4, 4) != 0: self.problems.append("sequence delimiter with non-zero length at %d" % at)
                return at + 8
            if (g, e) != (0xFFFE, 0xE000):
                self.problems.append("expected a fragment item at %d, found %s" % (at, (g, e))); return len(self.b)
            iln = self.u(at + 4, 4)
            if iln is None or iln == UNDEF:
                self.problems.append("fragment item at %d without a defined length" % at); return len(self.b)
            if iln % 2: self.problems.append("odd fragment length %d at %d" % (iln, at))
            at += 8 + iln

    def run(self):
        try:
            at = self.dataset(0, len(self.b), False)
            if at != len(self.b): self.problems.append("walk ended at %d of %d" % (at, len(self.b)))
        except IndexError:
            self.problems.append("stream ends in the middle of a header")
        return self.problems


# ------------------------------------------------------------------ contracts
ENC = {"kind": "ele"}     # which codec stands behind E (per instance)
IMPL = {}                 # (codec, method) -> MIR function name


def find_impls():
    files = {"ele": "explicit_le.rs", "ile": "implicit_le.rs", "ebe": "explicit_be.rs"}
    for k, f in files.items():
        for n in core.FNS:
            m = re.search(r"<impl at encoding/src/encode/%s:[^>]*>::(\w+)$" % re.escape(f), n)
            if m: IMPL.setdefault((k, m.group(1)), []).append(n)


def contracts(c, args, ctx):
    r = contracts_(c, args, ctx)
    for a in args[:2]:
        try: s = d(a)
        except Exception: continue
        if isinstance(s, core.Str): s.b[:] = [norm(x) for x in s.b]
    return r


def contracts_(c, args, ctx):
    big = ENC["kind"] == "ebe"
    m = re.fullmatch(r"<E as EncodeTo<W>>::(\w+)", c)
    if m:
        meth = m.group(1)
        cands = IMPL.get((ENC["kind"], meth), [])
        if meth == "encode_primitive":
            cands = [n for n in core.FNS if n == "BasicEncode::encode_primitive"]
        if len(cands) != 1: raise core.NotEncodable("no unique implementation of %s for codec %s: %s" % (meth, ENC["kind"], cands))
        if meth == "encode_primitive":
            sink = d(args[1]); before = len(sink.b)
            r = core.run_fn(cands[0], args, ctx)
            ENC["reported"] = (r.f[0] if r.variant == "Ok" else None, len(sink.b) - before)
            return r
        return core.run_fn(cands[0], args, ctx)
    m = re.fullmatch(r"<Self as BasicEncode>::encode_(us|ul|uv|ss|sl|sv|fl|fd)::<.*>", c)
    if m:
        n = {"us": 2, "ss": 2, "ul": 4, "sl": 4, "fl": 4, "uv": 8, "sv": 8, "fd": 8}[m.group(1)]
        # the real chain: codec -> Little/BigEndianBasicEncoder::encode_xx -> byteorder write_uN::<LE|BE>
        name = "encode::basic::<impl at encoding/src/encode/basic.rs"
        cands = [f for f in core.FNS if f.startswith(name) and f.endswith("::encode_" + m.group(1))]
        sel = [f for f in cands if ("BigEndianBasicEncoder" in core.FNS[f].ptext) == big and "EndianBasicEncoder" in core.FNS[f].ptext]
        if len(sel) == 1: return core.run_fn(sel[0], args, ctx)
        raise core.NotEncodable("basic encoder for %s: %s" % (c, cands))
    m = re.fullmatch(r"ByteOrdered::<.*StaticEndianness<(LittleEndian|BigEndian)>>::(le|be)", c)
    if m:
        bo = core.Struct([args[0]]); bo.big = m.group(2) == "be"; return bo
    m = re.fullmatch(r"ByteOrdered::<.*StaticEndianness<(LittleEndian|BigEndian)>>::write_(u|i|f)(16|32|64)", c)
    if m:
        bo = d(args[0])
        if io_fails(d(bo.f[0]), ctx): return core.Enum("Err", [IO_ERR])
        d(bo.f[0]).b.extend(to_bytes(args[1], int(m.group(3)) // 8, bo.big)); return core.Enum("Ok", [None])
    m = re.search(r"as WriteBytesExt>::write_(u|i|f)(16|32|64)::<(LittleEndian|BigEndian)>$", c)
    if m:
        n = int(m.group(2)) // 8
        if io_fails(d(args[0]), ctx): return core.Enum("Err", [IO_ERR])
        d(args[0]).b.extend(to_bytes(args[1], n, m.group(3) == "BigEndian")); return core.Enum("Ok", [None])
    m = re.fullmatch(r"<(LittleEndian|BigEndian) as ByteOrder>::write_u(16|32)", c)
    if m:
        n = int(m.group(2)) // 8
        view = d(args[0])
        if not isinstance(view, View): view = View(view, 0)
        bs = to_bytes(args[1], n, m.group(1) == "BigEndian")
        for k in range(n): view.set(k, bs[k])
        return None
    if re.search(r"as (std::io::)?Write>::write$", c):       # a single write call: all bytes are taken, or the call fails / takes nothing
        sink = d(args[0]); src = d(args[1])
        data = list(src) if isinstance(src, (bytes, bytearray)) else (src.items() if isinstance(src, View) else (src.b if isinstance(src, core.Str) else (src.items if isinstance(src, core.VecV) else list(src.f))))
        if io_fails(sink, ctx):
            return core.Enum("Ok", [0]) if sink.kind == "zero" else core.Enum("Err", [IO_ERR])
        sink.b.extend([norm(x) for x in data])
        return core.Enum("Ok", [len(data)])
    if re.search(r"as (std::io::)?Write>::write_all$", c) or re.match(r"Vec::<u8>::extend_from_slice$", c):
        src = d(args[1])
        data = list(src) if isinstance(src, (bytes, bytearray)) else (src.items() if isinstance(src, View) else (src.b if isinstance(src, core.Str) else (src.items if isinstance(src, core.VecV) else list(src.f))))
        if "write_all" in c and io_fails(d(args[0]), ctx): return core.Enum("Err", [IO_ERR])
        d(args[0]).b.extend([norm(x) for x in data])
        return core.Enum("Ok", [None]) if "write_all" in c else None
    if re.fullmatch(r"<\[u8(; \d+)?\] as Index(Mut)?<(std::ops::)?RangeFrom<usize>>>::index(_mut)?", c):
        base = d(args[0]); rng = args[1]
        return core.Ref(core.Cell(View(base, rng.f[0])))
    if re.fullmatch(r"<SmallVec<\[.*\]> as Index<RangeFull>>::index", c):
        return args[0]
    if re.match(r"Vec::<u8>::push$", c):
        d(args[0]).b.append(norm(args[1])); return None
    if re.match(r"Vec::<u8>::(reserve|reserve_exact|shrink_to_fit)$", c):
        return None
    if re.match(r"Vec::<u8>::clear$", c):
        del d(args[0]).b[:]; return None
    if re.match(r"Vec::<u8>::new$", c) or c == "Vec::<u8>::with_capacity":
        return Sink([])
    if re.match(r"Vec::<u8>::len$", c):
        return len(d(args[0]).b)
    if re.match(r"<Vec<u8> as Deref(Mut)?>::deref(_mut)?$", c):
        return d(args[0])
    if re.search(r"as TextCodec>::encode$", c):
        src = list(d(args[1]).b)
        if all(isinstance(x, int) for x in src) and any(x >= 0x80 for x in src):
            # concrete non-ASCII text under the default character set: dicom-rs writes ISO 8859-1 (checked against the real encoder by the native replay)
            try: return core.Enum("Ok", [Sink(list(bytes(src).decode("utf-8").encode("latin-1")))])
            except UnicodeError: return core.Enum("Err", [("opaque", "EncodeTextError")])
        return core.Enum("Ok", [Sink(src)])          # default repertoire: the instances' characters are their own encoding
    if re.search(r"::fail::<|Snafu::fail$", c):
        return core.Enum("Err", [("opaque", c)])
    if re.search(r"as ResultExt<.*>>::context::<", c):
        r = args[0]
        return r if r.variant == "Ok" else core.Enum("Err", [("opaque", c[:60])])
    if re.search(r"as OptionExt<.*>>::(with_)?context::<", c):
        o = args[0]
        return core.Enum("Ok", [o.f[0]]) if o.variant == "Some" else core.Enum("Err", [("opaque", "context")])
    if c.endswith("StatefulEncoder::<W, E>::try_new_codec"):
        return None                                               # character set switch: outside this case (tags here are not (0008,0005))
    return NotImplemented


class View:
    """&mut buf[k..] : shares the storage of a byte array"""
    def __init__(self, base, off):
        while isinstance(base, View): off += base.off; base = base.base
        self.base, self.off = base, off
    def store(self): return self.base.f if isinstance(self.base, core.Struct) else self.base.b
    def set(self, k, v): self.store()[self.off + k] = v
    def items(self): return self.store()[self.off:]


def S(text):
    return core.Str(list(text.encode()))


def sym_text(prefix, n, pc):
    bs = [BitVec("%s_%d" % (prefix, k), 8) for k in range(n)]
    for b in bs: pc.append(And(UGE(b, 0x30), ULE(b, 0x7A)))
    return core.Str(bs)


def new_writer(strategy_nochange):
    sink = Sink([])
    printer = core.Struct([sink, core.Struct([]), core.Enum("Default", []), BitVecVal(0, 64), Sink([])])
    strat = core.Enum("NoChange" if strategy_nochange else "SetUndefined", [])
    strat.idx = 1 if strategy_nochange else 0
    dw = core.Struct([printer, core.VecV([]), core.Enum("None", []), core.Struct([strat])])
    return dw, sink, printer


def run(rep, tier, seed, known, part):
    pp, _ = mirdump.dump("dicom-parser")
    pe, _ = mirdump.dump("dicom-encoding")
    pc_, _ = mirdump.dump("dicom-core")
    pch, _ = mirdump.dump("chrono")
    core.load([pp, pe, pc_, pch])
    for p in (pp, pe, pc_, pch): os.remove(p)
    find_impls()
    core.EXTRA_CONTRACTS[:] = [contracts, fmtlib.contracts]
    core.ENUMS.update({"DicomDateImpl::Year": 0, "DicomDateImpl::Month": 1, "DicomDateImpl::Day": 2,
                       "DicomTimeImpl::Hour": 0, "DicomTimeImpl::Minute": 1, "DicomTimeImpl::Second": 2, "DicomTimeImpl::Fraction": 3})
    core.ENUMS.update({"DateComponent::" + n: k for k, n in enumerate(["Year", "Month", "Day", "Hour", "Minute", "Second", "Millisecond", "Fraction", "UtcWest", "UtcEast"])})
    core.ENUMS.update({"DataToken::" + n: k for k, n in enumerate(TOKS)})
    core.ENUMS.update({"SeqTokenType::Sequence": 0, "SeqTokenType::Item": 1})
    WRITE = next(n for n in core.FNS if re.search(r"<impl at parser/src/dataset/write.rs:[^>]*>::write$", n))
    EPE = next(n for n in core.FNS if n.endswith("::encode_primitive_element"))
    rep.functions += ["dicom_parser::dataset::write::DataSetWriter::write / write_impl", "dicom_parser::stateful::encode::StatefulEncoder::* (+ even_len)",
                      "dicom_core::PrimitiveValue::calculate_byte_len", "dicom_encoding::encode::{explicit_le, implicit_le, explicit_be}::* header/item/delimiter encoders",
                      "dicom_encoding::encode::BasicEncode::encode_primitive, basic::{Little,Big}EndianBasicEncoder::encode_*"]
    nat = native.Native()
    try:
        only = os.environ.get("C04_ONLY", "")
        if not only or "elements" in only: elements(rep, tier, nat, EPE)
        if not only or "tokens" in only: token_streams(rep, tier, nat, WRITE)
        if not only or "dates" in only: date_values(rep, tier, nat, EPE)
    finally:
        nat.close()
        core.EXTRA_CONTRACTS[:] = []


# ------------------------------------------------------------------ part A: one element through StatefulEncoder::encode_primitive_element
def value_instances(tier):
    out = []
    num = [("U8", "OB", 8, (0, 1, 2, 3)), ("U16", "US", 16, (1, 2)), ("I16", "SS", 16, (1,)), ("U32", "UL", 32, (1, 2)), ("I32", "SL", 32, (1,)),
           ("U64", "UV", 64, (1,)), ("I64", "SV", 64, (1,)), ("U16", "OW", 16, (1,)), ("U8", "UN", 8, (1,)), ("U32", "OL", 32, (1,))]
    for variant, vrn, bits, counts in num:
        for n in counts: out.append((variant, vrn, bits, n))
    for vrn in ("UI", "LO", "DA", "PN", "CS", "UT", "SH", "TM"):
        for n in ((0, 1, 2, 3) if vrn in ("UI", "LO") or tier != "quick" else (1, 2)):
            out.append(("Str", vrn, 8, n))
    for vrn, lens in (("UI", (1, 1)), ("LO", (1, 2)), ("CS", (2, 2)), ("IS", (1, 1, 1))):
        out.append(("Strs", vrn, 8, lens))
    # concrete non-ASCII text: the encoded length (ISO 8859-1) differs from the UTF-8 length of the Rust string
    out.append(("StrC", "LO", 8, "M\u00fcller"))
    out.append(("StrC", "PN", 8, "\u00fc"))
    out.append(("StrsC", "LO", 8, ("M\u00fc", "x")))
    out.append(("StrsC", "PN", 8, ("M\u00fcller^Hans",)))
    out.append(("StrsC", "SH", 8, ("\u00e9\u00e8", "\u00fc")))
    out.append(("Tags", "AT", 16, 1))
    out.append(("Empty", "LO", 0, 0))
    return out


def elements(rep, tier, nat, EPE):
    codecs = ("ele", "ile", "ebe") if tier != "quick" else ("ele", "ile", "ebe")
    for codec in codecs:
        ENC["kind"] = codec
        insts = value_instances(tier)
        if tier == "quick" and codec != "ele":
            insts = [i for i in insts if i[0] in ("U8", "U16", "Str", "Strs", "Tags", "StrsC") and (i[0] != "Str" or i[1] in ("UI", "LO"))]
        for (variant, vrn, bits, shape) in insts:
            box = {}

            def build(ctx, variant=variant, vrn=vrn, bits=bits, shape=shape, codec=codec):
                pc = ctx.pc
                g, e = BitVec("g", 16), BitVec("e", 16)
                pc.append(g != 0xFFFE)
                pc.append(Not(And(g == 0x0008, e == 0x0005)))
                hl = BitVec("hdr_len", 32)                       # the length the caller wrote into the header: must be ignored
                if variant == "StrC":
                    val = core.Enum("Str", [S(shape)]); content = list(shape.encode("latin-1"))
                elif variant == "StrsC":
                    val = core.Enum("Strs", [core.VecV([S(x) for x in shape])]); content = list("\\".join(shape).encode("latin-1"))
                elif variant == "Str":
                    val = core.Enum("Str", [sym_text("s", shape, pc)]); content = list(val.f[0].b)
                elif variant == "Strs":
                    strs = [sym_text("s%d" % k, n, pc) for k, n in enumerate(shape)]
                    val = core.Enum("Strs", [core.VecV(strs)])
                    content = []
                    for k, s_ in enumerate(strs):
                        content += list(s_.b) + ([0x5C] if k < len(strs) - 1 else [])
                elif variant == "Tags":
                    tg, te = BitVec("tg", 16), BitVec("te", 16)
                    val = core.Enum("Tags", [core.VecV([core.Struct([tg, te])])])
                    content = to_bytes(tg, 2, codec == "ebe") + to_bytes(te, 2, codec == "ebe")
                elif variant == "Empty":
                    val = core.Enum("Empty", []); content = []
                else:
                    xs = [BitVec("x%d" % k, bits) for k in range(shape)]
                    val = core.Enum(variant, [core.VecV(xs) if variant != "U8" else core.VecV(xs)])
                    content = []
                    for x in xs: content += to_bytes(x, bits // 8, codec == "ebe")
                sink = Sink([])
                printer = core.Struct([sink, core.Struct([]), core.Enum("Default", []), BitVecVal(0, 64), Sink([])])
                de = header(g, e, vrn, hl)
                r = core.run_fn(EPE, [core.Ref(core.Cell(printer)), core.Ref(core.Cell(de)), core.Ref(core.Cell(val))], ctx)
                box["r"] = r
                if r.variant != "Ok":
                    box["problems"] = ["encode_primitive_element returned an error"]; return BoolVal(True)
                b = [norm(x) for x in sink.b]
                box["bytes"] = b
                problems, conds = [], []
                # expected stream, byte for byte: header(tag, vr, even length) + content + VR-specific padding
                n = len(content); even = n + (n % 2)
                pad = 0x20 if vrn in TEXT_PAD_SPACE else 0
                hdr_len = 8 if codec == "ile" or vrn not in LONG_VRS else 12
                if len(b) != hdr_len + even:
                    problems.append("%d bytes written, header + padded value is %d" % (len(b), hdr_len + even))
                else:
                    lf = b[hdr_len - (4 if hdr_len == 12 or codec == "ile" else 2):hdr_len]
                    if not all(isinstance(x, int) for x in lf):
                        problems.append("length field is not determined by the value (depends on the header's own length?)")
                    elif int.from_bytes(bytes(lf), "big" if codec == "ebe" else "little") != even:
                        problems.append("length field %d, value bytes that follow: %d" % (int.from_bytes(bytes(lf), "big" if codec == "ebe" else "little"), even))
                    for k, x in enumerate(content):
                        y = b[hdr_len + k]
                        if isinstance(x, int) and isinstance(y, int):
                            if x != y: problems.append("value byte %d differs" % k)
                        else:
                            conds.append(y != x)
                    if even != n:
                        y = b[hdr_len + n]
                        if isinstance(y, int):
                            if y != pad: problems.append("padding byte 0x%02x, expected 0x%02x for VR %s" % (y, pad, vrn))
                        else: conds.append(y != pad)
                bw = printer.f[3]
                bw = simplify(bw) if not isinstance(bw, int) else bw
                if isinstance(bw, int) or is_bv_value(bw):
                    bwv = bw if isinstance(bw, int) else bw.as_long()
                    if bwv != len(b): problems.append("bytes_written reports %d, %d bytes were written" % (bwv, len(b)))
                else:
                    conds.append(bw != len(b))
                box["problems"] = problems
                if problems: return BoolVal(True)
                return Or(conds) if conds else BoolVal(False)

            name = "%s element, value %s%s through encode_primitive_element [%s]: header length even and exact, VR-specific padding, bytes_written exact" % (vrn, variant, repr(shape), codec)
            res = core.explore(build)
            rep.nontrivial += res["paths"]
            finish(rep, nat, name, res, box, "elem", [codec, vrn, variant, shape], "c04_elem_%s_%s_%s_%s" % (codec, vrn, variant, re.sub(r"[^A-Za-z0-9]+", "_", str(shape).encode("ascii", "backslashreplace").decode()).strip("_")))


def model_int(model, name, bits, default=0x41):
    if model is None: return default
    v = model.eval(BitVec(name, bits), model_completion=True)
    return v.as_long()


def finish(rep, nat, name, res, box, kind, spec, replay_name):
    """native replay: build the same shape with the model's values (or sample values), walk the real bytes"""
    model = res["violation"][0] if res["violation"] else None
    if kind == "elem":
        codec, vrn, variant, shape = spec
        g = model_int(model, "g", 16, 0x0010); e = model_int(model, "e", 16, 0x0010); hl = model_int(model, "hdr_len", 32, 7)
        if variant == "StrC": vals = [shape.encode("utf-8").hex()]
        elif variant == "StrsC": vals = [x.encode("utf-8").hex() for x in shape]
        elif variant == "Str": vals = ["".join("%02x" % model_int(model, "s_%d" % k, 8) for k in range(shape)) or "-"]
        elif variant == "Strs": vals = ["".join("%02x" % model_int(model, "s%d_%d" % (i, k), 8) for k in range(n)) or "-" for i, n in enumerate(shape)]
        elif variant == "Tags": vals = [model_int(model, "tg", 16, 8), model_int(model, "te", 16, 0x18)]
        elif variant == "Empty": vals = []
        else: vals = [model_int(model, "x%d" % k, 64 if variant in ("U64", "I64") else (32 if variant in ("U32", "I32") else (16 if variant in ("U16", "I16") else 8)), 1 + k) for k in range(shape)]
        real = nat.ask("c04_elem", codec, "%04x" % g, "%04x" % e, vrn, hl, {"StrC": "Str", "StrsC": "Strs"}.get(variant, variant), *vals)
        real_problems = check_real_elem(real, codec, vrn)
    else:
        real = nat.ask("c04_tokens", *spec(model))
        real_problems = check_real_tokens(real, spec.codec, spec.seq_tags)
    if res["violation"]:
        rp = rep.replay_file(replay_name, "// engine=M case=c04\n// native: %s\n// encoding: %s\n// real: %s\n// walked: %s\n" % (kind, box.get("problems"), real, real_problems))
        if real_problems:
            rep.violations.append(("%s: %s (real bytes: %s)" % (name[:90], box.get("problems"), real_problems), rp))
            rep.obligation(name, "violated", {"problems": box.get("problems"), "native": real_problems})
        else:
            rep.inconclusive.append("C04 counterexample does not reproduce natively: %s: %s vs %s" % (name[:60], box.get("problems"), real[:60]))
            rep.obligation(name, "inconclusive", {"problems": box.get("problems"), "native": real[:80]})
    else:
        rep.validated += 1
        if real_problems or not real.startswith("N "):
            rep.inconclusive.append("native run of a holding instance is malformed: %s: %s / %s" % (name[:60], real[:60], real_problems))
        elif len(bytes.fromhex(real.split()[2])) != len(box.get("bytes", [])):
            rep.inconclusive.append("native output has %d bytes, the encoding produced %d: %s" % (len(bytes.fromhex(real.split()[2])), len(box.get("bytes", [])), name[:60]))
        rep.obligation(name, "holds", {"paths": res["paths"], "bytes": len(box.get("bytes", []))})


def check_real_elem(real, codec, vrn):
    """real = 'N <bytes_written> <hex> <valuehex>'"""
    if not real.startswith("N "): return [real]
    _, bw, hx, vhx = (real.split() + ["", ""])[:4]
    b = list(bytes.fromhex(hx if hx != "-" else "")); content = list(bytes.fromhex(vhx if vhx != "-" else ""))
    problems = []
    if int(bw) != len(b): problems.append("bytes_written reports %s, %d bytes were written" % (bw, len(b)))
    w = Walk(b, codec)
    problems += w.run()
    n = len(content); even = n + n % 2
    hdr_len = 8 if codec == "ile" or vrn not in LONG_VRS else 12
    if len(b) != hdr_len + even: problems.append("%d bytes written, header + padded value is %d" % (len(b), hdr_len + even))
    elif b[hdr_len:hdr_len + n] != content: problems.append("value bytes differ")
    elif even != n and b[-1] != (0x20 if vrn in TEXT_PAD_SPACE else 0): problems.append("padding byte 0x%02x" % b[-1])
    return problems


def check_real_tokens(real, codec, seq_tags):
    if not real.startswith("N "): return [real]
    _, bw, hx = (real.split() + [""])[:3]
    b = list(bytes.fromhex(hx if hx != "-" else ""))
    problems = []
    if bw != "-" and int(bw) != len(b): problems.append("bytes_written reports %s, %d bytes were written" % (bw, len(b)))
    return problems + Walk(b, codec, seq_tags).run()


# ------------------------------------------------------------------ part B: token streams through DataSetWriter::write
class Script:
    """a token stream of concrete shape; lengths given as 'canon' are the exact defined lengths of the content as encoded with all
    lengths defined (what a reader of a defined-length file reports); each entry: (kind, args)"""

    def __init__(self, codec, toks, seq_tags):
        self.codec, self.toks, self.seq_tags = codec, toks, seq_tags

    def __call__(self, model):
        out = [self.codec, "nochange" if self.nochange else "default"]
        for t in self.toks:
            k = t[0]
            if k == "S": out.append("S:%04x,%04x,%d" % (t[1][0], t[1][1], self.len_of(t, model)))
            elif k == "I": out.append("I:%d" % self.len_of(t, model))
            elif k in ("i", "s", "P"): out.append(k)
            elif k == "E":      # element: tag, vr, n value items (U16) or text length
                g, e = t[1]
                if t[2] == "US": out.append("E:%04x,%04x,US,%s" % (g, e, ",".join(str(model_int(model, "%s_v%d" % (t[4], j), 16, 3 + j)) for j in range(t[3]))))
                else: out.append("E:%04x,%04x,%s,%s" % (g, e, t[2], "".join("%02x" % model_int(model, "%s_c_%d" % (t[4], j), 8) for j in range(t[3])) or "-"))
            elif k == "F": out.append("F:%s" % ("".join("%02x" % model_int(model, "%s_f%d" % (t[2], j), 8, 0x11) for j in range(t[1])) or "-"))
            elif k == "O": out.append("O:%s" % (",".join(str(model_int(model, "%s_o%d" % (t[2], j), 32, 0)) for j in range(t[1])) or "-"))
        return out

    def len_of(self, t, model):
        ln = t[-1]
        if isinstance(ln, int): return ln
        return ln[1]     # symbolic in the encoding (the default strategy must ignore it); the native replay uses the canonical defined length


def elem_size(codec, vrn, nbytes):
    even = nbytes + nbytes % 2
    return (8 if codec == "ile" or vrn not in LONG_VRS else 12) + even


def token_streams(rep, tier, nat, WRITE):
    shapes = []
    # name, builder(codec, nochange) -> list of script tokens
    def flat_seq(codec, nochange, defined):
        el = elem_size(codec, "US", 2)
        if defined: return [("S", (0x0008, 0x1115), 8 + el), ("I", el), ("E", (0x0028, 0x0010), "US", 1, "a"), ("i",), ("s",)]
        return [("S", (0x0008, 0x1115), UNDEF), ("I", UNDEF), ("E", (0x0028, 0x0010), "US", 1, "a"), ("i",), ("s",)]

    def nested(codec, nochange, defined):
        el = elem_size(codec, "LO", 3)
        inner_item = el
        sqh = 8 if codec == "ile" else 12
        inner_seq = sqh + 8 + inner_item
        e2 = elem_size(codec, "US", 4)
        outer_item = inner_seq + e2
        if defined:
            return [("S", (0x0008, 0x1115), 8 + outer_item), ("I", outer_item), ("S", (0x0008, 0x1140), 8 + inner_item), ("I", inner_item),
                    ("E", (0x0008, 0x1150), "LO", 3, "a"), ("i",), ("s",), ("E", (0x0028, 0x0010), "US", 2, "b"), ("i",), ("s",)]
        return [("S", (0x0008, 0x1115), UNDEF), ("I", UNDEF), ("S", (0x0008, 0x1140), UNDEF), ("I", UNDEF),
                ("E", (0x0008, 0x1150), "LO", 3, "a"), ("i",), ("s",), ("E", (0x0028, 0x0010), "US", 2, "b"), ("i",), ("s",)]

    def two_items_empty(codec, nochange, defined):
        el = elem_size(codec, "UI", 1)
        if defined: return [("S", (0x0008, 0x1115), 8 + 8 + el), ("I", 0), ("i",), ("I", el), ("E", (0x0008, 0x1150), "UI", 1, "a"), ("i",), ("s",), ("E", (0x0028, 0x0011), "US", 1, "b")]
        return [("S", (0x0008, 0x1115), UNDEF), ("I", UNDEF), ("i",), ("I", UNDEF), ("E", (0x0008, 0x1150), "UI", 1, "a"), ("i",), ("s",), ("E", (0x0028, 0x0011), "US", 1, "b")]

    def pixel_then_seq(codec, nochange, defined):
        # encapsulated pixel data (offset table item, one fragment), then a sequence with a nested sequence, all recorded with defined lengths
        el = elem_size(codec, "US", 2)
        sqh = 8 if codec == "ile" else 12
        inner_seq = sqh + 8 + el
        pix = [("P",), ("I", 0), ("i",), ("I", 2), ("F", 2, "p"), ("i",), ("s",)]
        if defined:
            return pix + [("S", (0xFFFA, 0xFFFA), 8 + inner_seq), ("I", inner_seq), ("S", (0x0400, 0x0550), 8 + el), ("I", el), ("E", (0x0400, 0x0551), "US", 1, "a"), ("i",), ("s",), ("i",), ("s",)]
        return pix + [("S", (0xFFFA, 0xFFFA), UNDEF), ("I", UNDEF), ("S", (0x0400, 0x0550), UNDEF), ("I", UNDEF), ("E", (0x0400, 0x0551), "US", 1, "a"), ("i",), ("s",), ("i",), ("s",)]

    def pixel_offsets(codec, nochange, defined):
        return [("E", (0x0028, 0x0010), "US", 1, "a"), ("P",), ("I", 8), ("O", 2, "p"), ("i",), ("I", 2), ("F", 2, "p"), ("i",), ("I", 3), ("F", 3, "q"), ("i",), ("s",)]

    gens = [("sequence > item > US", flat_seq), ("nested sequences", nested), ("empty item + item, then an element", two_items_empty),
            ("encapsulated pixel data, then nested sequences", pixel_then_seq), ("element, encapsulated pixel data with offset table and an odd fragment", pixel_offsets)]
    codecs = ("ele", "ile", "ebe")
    for codec in codecs:
        ENC["kind"] = codec
        for gname, gen in gens:
            for nochange in (False, True):
                for defined in (True, False):
                    if tier == "quick" and codec != "ele" and (gen in (two_items_empty, pixel_offsets) or (nochange and not defined)):
                        continue
                    toks = gen(codec, nochange, defined)
                    seq_tags = {t[1] for t in toks if t[0] == "S"}
                    # under the default strategy the recorded lengths are ignored: make them arbitrary
                    if not nochange and defined:
                        toks = [(t[:-1] + (("len%d" % k, t[-1]),)) if t[0] in ("S",) or (t[0] == "I" and not in_pixel(toks, k)) else t for k, t in enumerate(toks)]
                    spec = Script(codec, toks, seq_tags); spec.nochange = nochange
                    box = {}

                    def build(ctx, toks=toks, codec=codec, nochange=nochange, seq_tags=seq_tags):
                        pc = ctx.pc
                        dw, sink, printer = new_writer(nochange)
                        ref = core.Ref(core.Cell(dw))

                        def L(x): return BitVecVal(x, 32) if isinstance(x, int) else BitVec(x[0], 32)
                        for t in toks:
                            k = t[0]
                            if k == "S": ts_ = [tok("SequenceStart", [core.Struct([BitVecVal(t[1][0], 16), BitVecVal(t[1][1], 16)]), core.Struct([L(t[2])])])]
                            elif k == "I": ts_ = [tok("ItemStart", [core.Struct([L(t[1])])])]
                            elif k == "i": ts_ = [tok("ItemEnd", [])]
                            elif k == "s": ts_ = [tok("SequenceEnd", [])]
                            elif k == "P": ts_ = [tok("PixelSequenceStart", [])]
                            elif k == "E":
                                g, e = t[1]
                                if t[2] == "US":
                                    val = core.Enum("U16", [core.VecV([BitVec("%s_v%d" % (t[4], j), 16) for j in range(t[3])])])
                                else:
                                    val = core.Enum("Str", [sym_text("%s_c" % t[4], t[3], pc)])
                                ts_ = [tok("ElementHeader", [header(BitVecVal(g, 16), BitVecVal(e, 16), t[2], BitVec("%s_hl" % t[4], 32))]), tok("PrimitiveValue", [val])]
                            elif k == "F": ts_ = [tok("ItemValue", [Sink([BitVec("%s_f%d" % (t[2], j), 8) for j in range(t[1])])])]
                            elif k == "O": ts_ = [tok("OffsetTable", [core.VecV([BitVec("%s_o%d" % (t[2], j), 32) for j in range(t[1])])])]
                            for tk in ts_:
                                r = core.run_fn(WRITE, [ref, tk], ctx)
                                if r.variant != "Ok":
                                    box["problems"] = ["write(%s) returned an error" % tk.variant]; return BoolVal(True)
                        b = [norm(x) for x in sink.b]
                        box["bytes"] = b
                        w = Walk(b, codec, seq_tags)
                        problems = w.run()
                        bw = printer.f[3]
                        bw = simplify(bw) if not isinstance(bw, int) else bw
                        conds = []
                        if isinstance(bw, int) or is_bv_value(bw):
                            bwv = bw if isinstance(bw, int) else bw.as_long()
                            if bwv != len(b): problems.append("bytes_written reports %d, %d bytes were written" % (bwv, len(b)))
                        else: conds.append(bw != len(b))
                        box["problems"] = problems
                        if problems: return BoolVal(True)
                        return Or(conds) if conds else BoolVal(False)

                    name = "%s [%s, %s strategy, %s input lengths]: independent PS3.5 walk of the written stream, bytes_written exact" % (
                        gname, codec, "NoChange" if nochange else "default (SetUndefined)", "defined" if defined else "undefined")
                    res = core.explore(build)
                    rep.nontrivial += res["paths"]
                    finish(rep, nat, name, res, box, "tokens", spec, "c04_tokens_%s_%s_%s_%s" % (codec, re.sub(r"\W+", "_", gname)[:30], "keep" if nochange else "dflt", "def" if defined else "undef"))


def in_pixel(toks, k):
    """is token k (an ItemStart) inside the encapsulated pixel data?"""
    depth = 0; inpix = False
    for j, t in enumerate(toks[:k]):
        if t[0] == "P": inpix = True; depth = 1
        elif inpix and t[0] == "s": inpix = False
    return inpix


# ------------------------------------------------------------------ part C: date / time / date-time values built by the real constructors
def ctor(name_re, recv=None):
    c = [n for n in core.FNS if re.search(name_re, n)]
    if len(c) != 1: raise core.NotEncodable("constructor %s: %s" % (name_re, c))
    return c[0]


def date_values(rep, tier, nat, EPE):
    """values are produced by running the MIR of the public constructors on symbolic arguments (so exactly the states the code admits
    are considered); then one element is written and the stream is checked: length field even and exact, space padding, the count
    encode_primitive reports equals the bytes it appended, bytes_written exact"""
    P = "partial::<impl at core/src/value/partial.rs:[^>]*>::"
    insts = []
    for nm, nargs in (("from_y", 1), ("from_ym", 2), ("from_ymd", 3)):
        insts.append(("Date", "DA", nm, nargs))
    for nm, nargs in (("from_h", 1), ("from_hm", 2), ("from_hms", 3), ("from_hms_milli", 4), ("from_hms_micro", 4), ("from_hmsf", 5)):
        insts.append(("Time", "TM", nm, nargs))
    for nm in ("from_date", "from_date_with_time_zone", "from_date_and_time", "from_date_and_time_with_time_zone"):
        insts.append(("DateTime", "DT", nm, 0))
    codecs = ("ele",) if tier == "quick" else ("ele", "ile", "ebe")
    rep.functions += ["dicom_core::value::partial::{DicomDate, DicomTime, DicomDateTime}::{from_*, to_encoded, precision, ...}", "dicom_core::value::serialize::encode_{date,time,datetime}",
                      "dicom_core::PrimitiveValue::{da,tm,dt}_byte_len", "chrono::FixedOffset::{east_opt, Display/Debug::fmt}", "core::fmt template interpreter (enginem/fmtlib.py)"]
    for codec in codecs:
        ENC["kind"] = codec
        for (variant, vrn, cname, nargs) in insts:
            if os.environ.get("C04_DATES_FILTER") and os.environ["C04_DATES_FILTER"] != cname: continue
            for count in ((1,) if tier == "quick" and variant != "Date" else (1, 2)):
                box = {}

                def mk_date(ctx, tag, fn="from_ymd"):
                    a = [BitVec("%s_y" % tag, 16), BitVec("%s_mo" % tag, 8), BitVec("%s_d" % tag, 8)][:{"from_y": 1, "from_ym": 2, "from_ymd": 3}[fn]]
                    r = core.run_fn(ctor(P + fn + "$"), a, ctx)
                    return r.f[0] if r.variant == "Ok" else None

                def mk_time(ctx, tag, fn):
                    a = [BitVec("%s_h" % tag, 8), BitVec("%s_mi" % tag, 8), BitVec("%s_s" % tag, 8), BitVec("%s_f" % tag, 32), BitVec("%s_fp" % tag, 8)]
                    n = {"from_h": 1, "from_hm": 2, "from_hms": 3, "from_hms_milli": 4, "from_hms_micro": 4, "from_hmsf": 5}[fn]
                    r = core.run_fn(ctor(P + fn + "$"), a[:n], ctx)
                    return r.f[0] if r.variant == "Ok" else None

                def mk_offset(ctx, tag):
                    # every offset chrono admits (|secs| < 86400) exactly once, assembled from small components so that the
                    # solver's divisions by 60 stay cheap: secs = +-(3600*H + 60*M + S)
                    H, M, S_, neg = BitVec("%s_oh" % tag, 8), BitVec("%s_om" % tag, 8), BitVec("%s_os" % tag, 8), Bool("%s_oneg" % tag)
                    ctx.pc.extend([ULE(H, 23), ULE(M, 59), ULE(S_, 59)])
                    mag = ZeroExt(24, H) * 3600 + ZeroExt(24, M) * 60 + ZeroExt(24, S_)
                    secs = If(neg, -mag, mag)
                    r = core.run_fn(ctor(r"fixed::<impl at [^>]*>::east_opt$"), [secs], ctx)
                    return r.f[0] if r.variant == "Some" else None

                def build(ctx, variant=variant, vrn=vrn, cname=cname, codec=codec, count=count):
                    pc = ctx.pc
                    vals = []
                    for k in range(count):
                        tag = "v%d" % k
                        if variant == "Date": v = mk_date(ctx, tag, cname)
                        elif variant == "Time":
                            tfn = cname
                            v = mk_time(ctx, tag, tfn)
                        else:
                            dfn = ["from_ymd", "from_ym", "from_y"][k % 3] if cname != "from_date_and_time" and cname != "from_date_and_time_with_time_zone" else "from_ymd"
                            date = mk_date(ctx, tag, dfn)
                            if date is None: return BoolVal(False)
                            a = [date]
                            if "time" in cname.replace("time_zone", ""):
                                t = mk_time(ctx, tag, ["from_hms_micro", "from_h", "from_hmsf"][k % 3] if tier != "quick" else "from_hmsf")
                                if t is None: return BoolVal(False)
                                a.append(t)
                            if "time_zone" in cname:
                                off = mk_offset(ctx, tag)
                                if off is None: return BoolVal(False)
                                a.append(off)
                            r = core.run_fn(ctor(P + cname + "$"), a, ctx)
                            v = r if not isinstance(r, core.Enum) or r.variant not in ("Ok", "Err") else (r.f[0] if r.variant == "Ok" else None)
                        if v is None: return BoolVal(False)          # the constructor refused the arguments: nothing to write
                        vals.append(v)
                    val = core.Enum(variant, [core.VecV(vals)])
                    sink = Sink([])
                    printer = core.Struct([sink, core.Struct([]), core.Enum("Default", []), BitVecVal(0, 64), Sink([])])
                    de = header(BitVecVal(0x0008, 16), BitVecVal(0x002A, 16), vrn, BitVec("hdr_len", 32))
                    ENC["reported"] = None
                    r = core.run_fn(EPE, [core.Ref(core.Cell(printer)), core.Ref(core.Cell(de)), core.Ref(core.Cell(val))], ctx)
                    box["r"] = r
                    if r.variant != "Ok":
                        box["problems"] = ["encode_primitive_element returned an error"]; return BoolVal(True)
                    b = [norm(x) for x in sink.b]
                    box["bytes"] = b
                    problems, conds = [], []
                    hdr_len = 8
                    lf = b[hdr_len - (4 if codec == "ile" else 2):hdr_len]
                    follow = len(b) - hdr_len
                    if not all(isinstance(x, int) for x in lf):
                        # the length was computed from a component that a later branch pins down: compare as terms under the path condition
                        parts = [BitVecVal(x, 8) if isinstance(x, int) else x for x in (lf if codec == "ebe" else lf[::-1])]
                        lnv = Concat(*parts) if len(parts) > 1 else parts[0]
                        conds.append(lnv != BitVecVal(follow, lnv.size()))
                    else:
                        ln = int.from_bytes(bytes(lf), "big" if codec == "ebe" else "little")
                        if ln != follow: problems.append("length field %d, %d value bytes follow" % (ln, follow))
                        if ln % 2: problems.append("odd value length %d" % ln)
                    rp_ = ENC.get("reported")
                    if rp_ is None: problems.append("encode_primitive was not reached")
                    else:
                        said, did = rp_
                        said = core.concrete_index(said) if said is not None else None
                        if said != did: problems.append("encode_primitive reports %s bytes, appended %d" % (said, did))
                        if follow not in (did, did + 1): problems.append("%d bytes follow the header, the value text has %d" % (follow, did))
                        elif follow == did + 1:
                            y = b[-1]
                            if isinstance(y, int):
                                if y != 0x20: problems.append("padding byte 0x%02x, expected a space for VR %s" % (y, vrn))
                            else: conds.append(y != 0x20)
                        elif did % 2: problems.append("odd text length %d without padding" % did)
                    bw = printer.f[3]
                    bw = simplify(bw) if not isinstance(bw, int) else bw
                    if isinstance(bw, int) or is_bv_value(bw):
                        bwv = bw if isinstance(bw, int) else bw.as_long()
                        if bwv != len(b): problems.append("bytes_written reports %d, %d bytes were written" % (bwv, len(b)))
                    else: conds.append(bw != len(b))
                    box["problems"] = problems
                    box["checked"] = box.get("checked", 0) + 1
                    if problems: return BoolVal(True)
                    return Or(conds) if conds else BoolVal(False)

                name = "%s element, %d value(s) built by %s, through encode_primitive_element [%s]: length field even and exact, space padding, reported byte count exact" % (vrn, count, cname, codec)
                res = core.explore(build)
                rep.nontrivial += res["paths"]
                finish_dates(rep, nat, name, res, box, codec, variant, vrn, cname, count)


def finish_dates(rep, nat, name, res, box, codec, variant, vrn, cname, count):
    model = res["violation"][0] if res["violation"] else None
    if model is None and res["witnesses"]:
        model = res["witnesses"][-1][0]
    words = []
    for k in range(count):
        tag = "v%d" % k
        g = lambda nm, bits, dflt: model_int(model, "%s_%s" % (tag, nm), bits, dflt)
        off = 3600 * g("oh", 8, 1) + 60 * g("om", 8, 0) + g("os", 8, 0)
        if model is not None and is_true(model.eval(Bool("%s_oneg" % tag), model_completion=True)): off = -off
        words.append(":".join(str(x) for x in (g("y", 16, 2000), g("mo", 8, 1), g("d", 8, 1), g("h", 8, 1), g("mi", 8, 1), g("s", 8, 1), g("f", 32, 1), g("fp", 8, 1), off)))
    real = nat.ask("c04_dates", codec, vrn, cname, *words)
    real_problems = check_real_dates(real, codec, vrn)
    if res["violation"]:
        rp = rep.replay_file("c04_dates_%s_%s_%d" % (codec, cname, count), "// engine=M case=c04 (dates)\n// native: c04_dates %s %s %s %s\n// encoding: %s\n// real: %s\n// walked: %s\n" % (codec, vrn, cname, " ".join(words), box.get("problems"), real, real_problems))
        if real_problems and real_problems != ["REFUSED"]:
            rep.violations.append(("%s: %s (real bytes: %s; arguments y:mo:d:h:mi:s:f:fp:offset = %s)" % (name[:80], box.get("problems"), real_problems, " ".join(words)), rp))
            rep.obligation(name, "violated", {"problems": box.get("problems"), "native": real_problems, "arguments": words})
        else:
            rep.inconclusive.append("C04 counterexample does not reproduce natively: %s: %s vs %s" % (name[:60], box.get("problems"), real[:80]))
            rep.obligation(name, "inconclusive", {"problems": box.get("problems"), "native": real[:80]})
    else:
        rep.validated += 1
        if real_problems and real_problems != ["REFUSED"]:
            rep.inconclusive.append("native run of a holding instance is malformed: %s: %s / %s" % (name[:60], real[:60], real_problems))
        if not box.get("checked"):
            rep.inconclusive.append("vacuous: no path of '%s' reached the check (every constructor call was refused)" % name[:70])
        rep.obligation(name, "holds", {"paths": res["paths"], "paths_reaching_the_check": box.get("checked", 0)})


def check_real_dates(real, codec, vrn):
    """real = 'N <bytes_written> <hex> <text length>' | 'REFUSED'"""
    if real.startswith("REFUSED"): return ["REFUSED"]
    if not real.startswith("N "): return [real]
    _, bw, hx, tl = (real.split() + ["", ""])[:4]
    b = list(bytes.fromhex(hx)); tl = int(tl)
    problems = []
    if int(bw) != len(b): problems.append("bytes_written reports %s, %d bytes were written" % (bw, len(b)))
    problems += Walk(b, codec).run()
    follow = len(b) - 8
    if follow != tl + tl % 2: problems.append("%d bytes follow the header, the value text has %d" % (follow, tl))
    elif tl % 2 and b[-1] != 0x20: problems.append("padding byte 0x%02x" % b[-1])
    return problems
