"""C34 (file-level data set writer, "flushing adapters" clause) — FileDicomObject::write_dataset_impl hands the data set to a DataSetWriter
over the caller's (buffered) writer.  A buffered writer reports a failure of the underlying sink only when it is flushed, so the
operation may answer Ok only after a flush that answered Ok has followed the last successful write.
Encoded (container mode): the MIR of dicom_object::FileDicomObject::<O>::write_dataset_impl.  The registry answer is a transfer syntax whose
codec variant is fixed per instance (None, EncapsulatedPixelData, Dataset(Some)); DataSetWriter::{with_ts, write_sequence, flush} are
environment contracts over one abstract buffered sink: each answers Ok or Err as the solver chooses, write_sequence leaves bytes pending,
a flush answering Ok delivers them.  Negated property: the function returns Ok while bytes are pending, or although a call answered Err.
Replay: the real FileDicomObject::write_dataset over a writer that rejects every write (a small data set stays in the BufWriter until flush)."""
import os, re
from z3 import *
import core, mirdump, native

d = core._d

TS_UID = {"None": "1.2.840.10008.1.2.1", "EncapsulatedPixelData": "1.2.840.10008.1.2.4.50", "Dataset": "1.2.840.10008.1.2.1.99"}


def run(rep, tier, seed, known, part):
    rep.functions += ["dicom_object::FileDicomObject::<O>::write_dataset_impl over an abstract buffered sink (DataSetWriter::{with_ts, write_sequence, flush} as Ok/Err contracts)"]
    nat = native.Native("nativefull")          # registry with the deflate data set adapter
    path = mirdump.dump("dicom-object")[0]
    try:
        core.load([path])
        FN = next(n for n in core.FNS if n.endswith("::write_dataset_impl"))
        for codec in ("None", "EncapsulatedPixelData", "Dataset"):
            one(rep, nat, FN, codec)
    finally:
        nat.close()
        core.EXTRA_CONTRACTS[:] = []
        try: os.remove(path)
        except OSError: pass


def one(rep, nat, FN, codec):
    name = "write_dataset_impl, transfer syntax with codec %s: Ok only after the written data set was flushed successfully; an error of with_ts / write_sequence / flush is returned" % codec
    box = {}

    def build(ctx):
        st = {"pending": False, "err": False, "events": []}
        n = {"k": 0}

        def outcome(what):
            n["k"] += 1
            ok = ctx.branch(Bool("%s_ok_%d" % (what, n["k"])))
            st["events"].append((what, ok))
            if not ok: st["err"] = True
            return ok

        def contracts(c, args, ctx_):
            if re.fullmatch(r"(dicom_object::meta::)?FileMetaTable::transfer_syntax", c): return core.Str([BitVec("uid_%d" % k, 8) for k in range(3)])
            if re.fullmatch(r"<TransferSyntaxRegistry as TransferSyntaxIndex>::get", c):
                return core.Enum("Some", [core.Ref(core.Cell(core.Struct([("ts", codec)])))])
            if re.fullmatch(r"dicom_encoding::TransferSyntax::<.*>::codec", c):
                if codec == "Dataset":
                    cd = core.Enum("Dataset", [core.Enum("Some", [core.Struct([core.Struct([core.Ref(core.Cell(core.Struct([("adapter",)])))])])])]); cd.idx = 2   # Box = Unique(NonNull(ptr))
                else:
                    cd = core.Enum(codec, [("opaque", "pixel codec")] if codec != "None" else []); cd.idx = 0 if codec == "None" else 1
                return core.Ref(core.Cell(cd))
            if re.fullmatch(r"dicom_encoding::TransferSyntax::<.*>::(uid|name)", c): return core.Str([])
            if re.fullmatch(r"<str as ToString>::to_string", c): return d(args[0])
            if re.fullmatch(r"Box::<.*>::new", c): return args[0]
            if re.fullmatch(r"<dyn DataRWAdapter \+ Send \+ Sync as DataRWAdapter>::adapt_writer", c):
                st["events"].append(("adapt_writer", True)); return ("opaque", "adapted writer")
            if re.fullmatch(r"DataSetWriter::<.*>::with_ts", c):
                return core.Enum("Ok", [core.Struct([("dataset writer",)])]) if outcome("with_ts") else core.Enum("Err", [("opaque", "dicom_parser::dataset::write::Error")])
            if re.fullmatch(r"<&O as IntoTokens>::into_tokens", c): return ("opaque", "tokens")
            if re.fullmatch(r"DataSetWriter::<.*>::write_sequence::<.*>", c):
                st["pending"] = True          # whatever was written before the failure stays in the buffer as well
                return core.Enum("Ok", [core.Struct([])]) if outcome("write_sequence") else core.Enum("Err", [("opaque", "dicom_parser::dataset::write::Error")])
            if re.fullmatch(r"DataSetWriter::<.*>::flush", c):
                if outcome("flush"):
                    st["pending"] = False
                    return core.Enum("Ok", [core.Struct([])])
                return core.Enum("Err", [("opaque", "dicom_parser::dataset::write::Error")])
            return NotImplemented

        core.EXTRA_CONTRACTS[:] = [contracts]
        r = d(core.run_fn(FN, [core.Ref(core.Cell(core.Struct([("file object",)]))), ("opaque", "writer")], ctx))
        box["paths"] = box.get("paths", 0) + 1
        if any(w == "flush" for w, _ in st["events"]): box["flushed"] = box.get("flushed", 0) + 1
        if st["err"]: box["failed_paths"] = box.get("failed_paths", 0) + 1
        if r.variant == "Ok":
            wrote = any(w == "write_sequence" for w, _ in st["events"])
            problem = None
            if st["err"]: problem = "returned Ok although %s answered Err" % next(w for w, ok in st["events"] if not ok)
            elif st["pending"]: problem = "returned Ok with the written data set still in the buffer (no successful flush after write_sequence): events %s" % [w for w, _ in st["events"]]
            elif not wrote: problem = "returned Ok without writing the data set"
            if problem:
                box["problem"] = problem
                return BoolVal(True)
        return BoolVal(False)

    res = core.explore(build)
    rep.nontrivial += res["paths"]
    real = nat.ask("file_flush_fail", TS_UID[codec])
    if res["violation"]:
        rp = rep.replay_file("c34file_" + codec, "// engine=M case=c34file\n// codec %s: %s\n// native: file_flush_fail %s -> %s\n" % (codec, box.get("problem"), TS_UID[codec], real))
        if real.startswith("OK") or real.startswith("PANIC"):
            rep.violations.append(("FileDicomObject::write_dataset (codec %s): %s (real, writer rejecting every write: %s)" % (codec, box.get("problem"), real), rp))
            rep.obligation(name, "violated", {"problem": box.get("problem"), "native": real})
        else:
            rep.inconclusive.append("C34 file-level counterexample does not reproduce natively: %s -> %s" % (box.get("problem"), real))
            rep.obligation(name, "inconclusive", {"problem": box.get("problem"), "native": real})
    else:
        if not box.get("flushed") or not box.get("failed_paths"): rep.inconclusive.append("vacuous: no path of '%s' reached a flush / a failing call" % name[:60])
        if not (real.startswith("ERR") or real.startswith("UNSUPPORTED")): rep.inconclusive.append("native write_dataset over a writer rejecting every write answered %s although the encoding holds" % real)
        rep.validated += 1
        rep.obligation(name, "holds", {"paths": res["paths"], "paths_with_a_flush": box.get("flushed", 0), "paths_with_a_failing_call": box.get("failed_paths", 0), "native": real})
