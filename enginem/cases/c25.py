"""C25 (length-field clause) — writing a PDU whose item content exceeds what its 16-bit length field can express fails instead of
emitting a corrupt PDU.  Encoded (scalar mode): MIR of dicom_ul::pdu::writer::write_chunk_u16 and write_chunk_u32 with the content
builder as a contract that produces `L` bytes."""
import os
from z3 import *
import mirdump, native, scalar


class R:
    def __init__(self, v):
        self.v = v

    def get(self):
        return self.v


def run(rep, tier, seed, known, part):
    path, _ = mirdump.dump("dicom-ul")
    text = open(path).read()
    os.remove(path)
    L = BitVec("L", 64)
    rec = []

    def deref(a):
        while hasattr(a, "get") and not isinstance(a, dict):
            a = a.get()
        return a

    def c_call_once(M, a, pc):
        vec = deref(a[1][0])
        vec["len"] = L                      # the builder closure appended L bytes of content
        return {"disc": BitVecVal(0, 64), "Ok": {0: None}}

    def c_branch(M, a, pc):
        r = a[0]
        payload = r.get("Ok", {}).get(0) if isinstance(r, dict) else None
        return {"disc": r["disc"], "Continue": {0: payload}, "Break": {0: {"disc": BitVecVal(1, 64)}}}

    def c_try_from(M, a, pc, bits):
        v = a[0]
        fits = ULE(v, BitVecVal((1 << bits) - 1, v.size()))
        return {"disc": If(fits, BitVecVal(0, 64), BitVecVal(1, 64)), "Ok": {0: Extract(bits - 1, 0, v)}, "Err": {0: None}}
    contracts = {
        r"^Vec::<u8>::new$": lambda M, a, pc: {"len": BitVecVal(0, 64)},
        r"<u16 as TryFrom<usize>>::try_from$": lambda M, a, pc: c_try_from(M, a, pc, 16),
        r"<u32 as TryFrom<usize>>::try_from$": lambda M, a, pc: c_try_from(M, a, pc, 32),
        r"Result::<u(16|32), .*>::ok$": lambda M, a, pc: {"disc": If(a[0]["disc"] == 0, BitVecVal(1, 64), BitVecVal(0, 64)), "Some": {0: a[0]["Ok"][0]}},
        r"as OptionExt<u(16|32)>>::context::<": lambda M, a, pc: {"disc": If(a[0]["disc"] == 1, BitVecVal(0, 64), BitVecVal(1, 64)), "Ok": {0: a[0]["Some"][0]}},
        r"as FnOnce<\(&mut Vec<u8>,\)>>::call_once$": c_call_once,
        r"::map_err::<": lambda M, a, pc: a[0],
        r"as ResultExt<.*>>::context::<": lambda M, a, pc: a[0],
        r"as Try>::branch$": c_branch,
        r"as FromResidual<.*>>::from_residual$": lambda M, a, pc: {"disc": BitVecVal(1, 64)},
        r"^Vec::<u8>::len$": lambda M, a, pc: deref(a[0])["len"],
        r"as WriteBytesExt>::write_u(16|32)::<BigEndian>$": lambda M, a, pc: (rec.append(("field", pc, a[1])), {"disc": BitVecVal(0, 64)})[1],
        r"<Vec<u8> as Deref>::deref$": lambda M, a, pc: deref(a[0]),
        r"as std::io::Write>::write_all$": lambda M, a, pc: (rec.append(("data", pc, deref(a[1])["len"])), {"disc": BitVecVal(0, 64)})[1],
        r"::fail::<|Snafu::fail$|::build$|::into_error$": lambda M, a, pc: {"disc": BitVecVal(1, 64)},
    }
    nat = native.Native()
    rep.functions += ["dicom_ul::pdu::writer::write_chunk_u16", "dicom_ul::pdu::writer::write_chunk_u32"]
    for fn_name, width, bound in (("write_chunk_u16", 16, 1 << 20), ("write_chunk_u32", 32, 1 << 33)):
        del rec[:]
        M = scalar.Machine(text, contracts, havoc=True)
        F = next(n for n in M.fns if n == fn_name or n.endswith("::" + fn_name))
        res = M.call(F, [scalar.Any(), scalar.Any()])
        ok = res["disc"] == 0 if isinstance(res, dict) else BoolVal(True)
        bad = []
        for kind, pc, v in rec:
            if kind == "field":
                bad.append(And(pc, ZeroExt(64 - v.size(), v) != L))
        s = Solver()
        s.add(ULE(L, BitVecVal(bound, 64)), ok, Or(bad) if bad else BoolVal(False))
        r = s.check()
        rep.evaluations += 1
        name = "%s: returns Ok only if the %d-bit length field written equals the content length, for all content lengths <= 2^%d" % (fn_name, width, bound.bit_length() - 1)
        if r == unsat:
            rep.nontrivial += 1
            rep.obligation(name, "holds", {"length_fields_recorded": len(bad)})
        elif r == sat:
            lv = s.model().eval(L, model_completion=True).as_long()
            if width == 32:
                rep.inconclusive.append("32-bit chunk overflow needs %d bytes of content: not replayable" % lv)
                rep.obligation(name, "inconclusive", {"L": lv})
                continue
            real = nat.ask("pdu_big", lv)
            rp = rep.replay_file("c25_chunk_u16", "// engine=M case=c25\n// native: pdu_big %d   (A-ASSOCIATE-RQ with one user item of %d content bytes: write_pdu, then read_pdu of the bytes)\n// %s\n" % (lv, lv, real))
            if real.startswith("CORRUPT"):
                what = "write_pdu accepts a user item with %d content bytes and emits a PDU that does not read back (%s)" % (lv, real)
                role = "c25_item_length_overflow"
                if role in known:
                    rep.known_hits.append((role, known[role]))
                    rep.obligation(name, "known-finding", {"L": lv})
                else:
                    rep.violations.append((what, rp))
                    rep.obligation(name, "violated", {"L": lv, "native": real})
            else:
                rep.inconclusive.append("C25 model L=%d does not reproduce natively: %s" % (lv, real))
                rep.obligation(name, "inconclusive", {"native": real})
        else:
            rep.inconclusive.append("solver answered %s" % r)
    # translator validation: small item lengths round-trip natively
    for lv in (0, 1, 300, 60000):
        real = nat.ask("pdu_big", lv)
        rep.validated += 1
        if not real.startswith("ROUNDTRIP_OK"):
            rep.inconclusive.append("native write/read of a %d-byte user item: %s" % (lv, real))
    nat.close()
