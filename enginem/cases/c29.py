"""C29 (identifier clause) — the requestor uses distinct odd presentation context identifiers.
Encoded (scalar mode, unknown callees havocked = over-approximated): MIR of ClientAssociationOptions::create_a_associate_req up to the
point where it maps its closure over the proposed contexts (the path conditions there bound the number of contexts), and of that
closure (the identifier arithmetic)."""
import os
from z3 import *
import mirdump, native, scalar


class R:
    def __init__(self, v):
        self.v = v

    def get(self):
        return self.v


def run(rep, tier, seed, known, part):
    path, _ = mirdump.dump("dicom-ul")
    text = open(path).read()
    os.remove(path)
    n = BitVec("n_contexts", 64)
    arrivals = []
    PC_T = "(Cow<'_, str>, Vec<Cow<'_, str>>)"

    def c_map(M, a, pc):
        arrivals.append(pc)
        raise scalar.StopPath()
    contracts = {
        r"^Vec::<\(Cow<'_, str>, Vec<Cow<'_, str>>\)>::is_empty$": lambda M, a, pc: n == 0,
        r"^Vec::<\(Cow<'_, str>, Vec<Cow<'_, str>>\)>::len$": lambda M, a, pc: n,
        r"as Iterator>::map::<PresentationContextProposed|as Iterator>::map::<pdu::PresentationContextProposed": c_map,
    }
    M = scalar.Machine(text, contracts, havoc=True)
    PARENT = next(nm for nm in M.fns if nm.endswith("::create_a_associate_req"))
    CLO = next(nm for nm in M.fns if nm.endswith("::create_a_associate_req::{closure#0}"))
    rep.functions += ["dicom_ul::association::client::ClientAssociationOptions::create_a_associate_req (guards before the context mapping; other callees havocked)",
                      "create_a_associate_req::{closure#0} (identifier arithmetic)"]
    try:
        M.call(PARENT, [R(scalar.Any()), scalar.Any()])
    except scalar.StopPath:
        pass
    if not arrivals:
        rep.inconclusive.append("the context mapping was not reached in the encoding of create_a_associate_req")
        return
    reach = Or(arrivals)
    i, j = BitVecs("i j", 64)
    M.panics = []
    id_i = M.call(CLO, [R(scalar.Any()), {0: i, 1: R(scalar.Any())}])[0]
    id_j = M.call(CLO, [R(scalar.Any()), {0: j, 1: R(scalar.Any())}])[0]
    pan = [p for p, _ in M.panics if not is_false(p)]
    nat = native.Native()
    s = Solver()
    s.add(reach, ULT(i, j), ULT(j, n), ULE(n, BitVecVal(100000, 64)), Or(id_i == id_j, Extract(0, 0, id_i) == 0, Or(pan) if pan else BoolVal(False)))
    r = s.check()
    rep.evaluations += 1
    name = "for every number of proposed contexts the requestor accepts: identifiers odd and pairwise distinct"
    if r == unsat:
        rep.nontrivial += 2
        rep.obligation(name, "holds", {"paths_to_mapping": len(arrivals)})
    elif r == sat:
        m = s.model()
        nv, iv, jv = (m.eval(x, model_completion=True).as_long() for x in (n, i, j))
        real = nat.ask("assoc_ids", nv)
        rp = rep.replay_file("c29_context_ids", "// engine=M case=c29\n// native: assoc_ids %d   (a requestor proposing %d presentation contexts; ids as received by a listening socket)\n// %s\n" % (nv, nv, real[:400]))
        ids = [int(x) for x in real.split()[1:]] if real.startswith("IDS") else None
        if ids is not None and (len(set(ids)) != len(ids) or any(x % 2 == 0 for x in ids)):
            what = "a requestor proposing %d presentation contexts sends identifiers that repeat (context %d and %d both get id %d)" % (nv, iv, jv, ids[iv] if iv < len(ids) else -1)
            role = "c29_context_ids_wrap"
            if role in known:
                rep.known_hits.append((role, known[role]))
                rep.obligation(name, "known-finding", {"contexts": nv})
            else:
                rep.violations.append((what, rp))
                rep.obligation(name, "violated", {"contexts": nv, "native": real[:200]})
        elif real.startswith("REFUSED"):
            rep.inconclusive.append("the real requestor refuses %d contexts (%s) but the encoding reaches the mapping: encoding too coarse" % (nv, real))
            rep.obligation(name, "inconclusive", {"native": real})
        else:
            rep.inconclusive.append("C29 model (n=%d) does not reproduce natively: %s" % (nv, real[:100]))
            rep.obligation(name, "inconclusive", {"native": real[:100]})
    else:
        rep.inconclusive.append("solver answered %s" % r)
    # translator validation: small numbers of contexts
    for k in (1, 3, 128):
        real = nat.ask("assoc_ids", k)
        rep.validated += 1
        if real.startswith("IDS"):
            ids = [int(x) for x in real.split()[1:]]
            enc = [simplify(substitute(id_i, (i, BitVecVal(t, 64)))).as_long() for t in range(k)]
            if ids != enc:
                rep.inconclusive.append("encoding disagrees with the real requestor for %d contexts: %s vs %s" % (k, enc[:5], ids[:5]))
    nat.close()
