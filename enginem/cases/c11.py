"""C11 (multi-valued half) — PrimitiveValue::to_multi_int::<T>: one exact result per stored value, in order, or an error.
Encoded: MIR of PrimitiveValue::to_multi_int and its per-variant closures (generic over T; T fixed per instance through the
NumCast contract = range check + truncation, as documented by num-traits)."""
import os
from z3 import *
import core, mirdump, native

SRC = {"U8": (8, False), "U16": (16, False), "I16": (16, True), "U32": (32, False), "I32": (32, True), "U64": (64, False), "I64": (64, True)}
TGT = {"u8": (8, False), "u16": (16, False), "i16": (16, True), "u32": (32, False), "i32": (32, True), "u64": (64, False), "i64": (64, True)}


def sval(m, v, bits, signed):
    x = m.eval(v, model_completion=True).as_long()
    if signed and x >= 1 << (bits - 1):
        x -= 1 << bits
    return x


def run(rep, tier, seed, known, part):
    path, ds = mirdump.dump("dicom-core")
    core.load([path])
    F = next(n_ for n_ in core.FNS if n_.endswith("::to_multi_int") and "primitive" in n_)
    rep.functions += ["dicom_core::value::primitive::PrimitiveValue::to_multi_int::<T> (+ per-variant closures)"]
    nat = native.Native()
    pairs = [(s, t) for s in SRC for t in TGT]
    if tier == "quick":
        # every source variant and every target type at least once, rotated by the seed; all sources with the empty value
        sel = [(s, list(TGT)[(i + seed) % 7]) for i, s in enumerate(SRC)] + [(list(SRC)[(i + seed + 3) % 7], t) for i, t in enumerate(TGT)]
        pairs = sorted(set(sel))
    for (variant, tname) in pairs:
        bits, signed = SRC[variant]
        tb, ts = TGT[tname]
        core.TARGET["bits"], core.TARGET["signed"] = tb, ts
        lo, hi = (-(1 << (tb - 1)), (1 << (tb - 1)) - 1) if ts else (0, (1 << tb) - 1)
        for n in (0, 1, 2):
            vals = [BitVec("v%d" % i, bits) for i in range(n)]
            w = 72

            def fits(v):
                x = SignExt(w - bits, v) if signed else ZeroExt(w - bits, v)
                return And(x >= BitVecVal(lo, w), x <= BitVecVal(hi, w)), Extract(tb - 1, 0, x)

            def build(ctx):
                pv = core.Enum(variant, [core.VecV(vals)])
                r = core.run_fn(F, [core.Ref(core.Cell(pv))], ctx)
                ctx.r = r
                allfit = And([fits(v)[0] for v in vals]) if vals else BoolVal(True)
                if r.variant == "Ok":
                    items = r.f[0].items
                    return Or(Not(allfit), BoolVal(len(items) != n), *[a != fits(v)[1] for a, v in zip(items, vals)])
                return allfit          # Err although every stored value is representable (an empty value must give an empty list)

            res = core.explore(build)
            name = "to_multi_int::<%s> on %s with %d item(s): exact per item, in order, or Err" % (tname, variant, n)
            wkey = "c11_multi_int_%s_%s_%d" % (variant, tname, n)

            def cmd(model):
                return ["multi_int", variant, tname] + [str(sval(model, v, bits, signed)) for v in vals]

            def expected(model):
                xs = [sval(model, v, bits, signed) for v in vals]
                return "ERR" if any(x < lo or x > hi for x in xs) else ("OK " + " ".join(str(x) for x in xs)).strip()

            bad = []
            for model, ctx in res["witnesses"][:3]:
                c = cmd(model)
                real = nat.ask(*c)
                rep.validated += 1
                enc = "ERR" if ctx.r.variant != "Ok" else ("OK " + " ".join(str(sval(model, a, tb, ts)) for a in ctx.r.f[0].items)).strip()
                if real != enc:
                    bad.append("%s: encoding gives %s, real function gives %s" % (" ".join(c), enc, real))
            if bad:
                rep.inconclusive.append("encoding disagrees with native execution: " + "; ".join(bad[:2]))
            rep.nontrivial += res["paths"]
            if res["violation"]:
                model, pidx, ctx = res["violation"]
                c = cmd(model)
                real = nat.ask(*c)
                want = expected(model)
                rp = rep.replay_file(wkey, "// engine=M case=%s\n// native: %s\n// expected %s, the real to_multi_int returns %s\n" % (wkey, " ".join(c), want, real))
                if real != want:
                    what = "%s returns %s, expected %s" % (" ".join(c), real, want)
                    role = "c11_multi_int_empty_%s" % variant if n == 0 else wkey
                    if role in known:
                        rep.known_hits.append((role, known[role]))
                        rep.obligation(name, "known-finding", {"input": c, "native": real})
                    else:
                        rep.violations.append((what, rp))
                        rep.obligation(name, "violated", {"input": c, "native": real, "expected": want})
                else:
                    rep.inconclusive.append("C11 counterexample %s does not reproduce natively" % c)
                    rep.obligation(name, "inconclusive", {"input": c})
            else:
                rep.obligation(name, "holds", {"paths": res["paths"], "solver_s": round(res["time"], 2)})
    nat.close()
    os.remove(path)
