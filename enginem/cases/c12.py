"""C12 (time range clause) — every valid partial time has an earliest and a latest precise instant consistent with its components.
Encoded (scalar mode, path merging): MIR of <DicomTime as AsRange>::{earliest, latest} and the DicomTime accessors they call."""
import os
from z3 import *
import mirdump, native, scalar


class R:
    def __init__(self, v):
        self.v = v

    def get(self):
        return self.v


def deref(a):
    while hasattr(a, "get") and not isinstance(a, dict):
        a = a.get()
    return a


def run(rep, tier, seed, known, part):
    path, _ = mirdump.dump("dicom-core")
    text = open(path).read()
    os.remove(path)

    def c_pow(M, a, pc):
        base, e = a
        out = BitVecVal(1, 32)
        acc = BitVecVal(1, 32)
        res = BitVecVal(0, 32)
        for k in range(0, 10):
            res = If(e == k, BitVecVal(10 ** k, 32), res) if simplify(base).as_long() == 10 else res
        return res

    def c_unwrap_or(M, a, pc):
        o, d = a
        return R(If(o["disc"] == 1, deref(o["Some"][0]), deref(d)))

    def c_from_hms_micro(M, a, pc):
        h, m, s, us = a
        ok = And(ULT(h, 24), ULT(m, 60), ULT(s, 60), ULT(us, 2_000_000))      # chrono: microseconds up to 1_999_999 encode a leap second
        return {"disc": If(ok, BitVecVal(1, 64), BitVecVal(0, 64)), "Some": {0: {"h": h, "m": m, "s": s, "us": us}}}

    def c_context(M, a, pc):
        o = a[0]
        return {"disc": If(o["disc"] == 1, BitVecVal(0, 64), BitVecVal(1, 64)), "Ok": {0: o["Some"][0]}}
    contracts = {
        r"<impl u32>::pow$": c_pow,
        r"Option::<&u8>::unwrap_or$": c_unwrap_or,
        r"<u8 as Into<u32>>::into$|<u32 as From<u8>>::from$": lambda M, a, pc: ZeroExt(24, a[0]),
        r"NaiveTime::from_hms_micro_opt$": c_from_hms_micro,
        r"as OptionExt<NaiveTime>>::context::<": c_context,
    }
    M = scalar.Machine(text, contracts, havoc=False)
    EARLIEST = next(n for n, f in M.fns.items() if n.endswith("::earliest") and f.ptext.startswith("_1: &DicomTime"))
    LATEST = next(n for n, f in M.fns.items() if n.endswith("::latest") and f.ptext.startswith("_1: &DicomTime"))
    rep.functions += ["<DicomTime as AsRange>::earliest", "<DicomTime as AsRange>::latest", "DicomTime::{hour, minute, second, fraction_and_precision}"]
    h, m, s, fp = BitVecs("h m s fp", 8)
    f = BitVec("f", 32)
    d = BitVec("variant", 64)
    val = {0: {"disc": d, "Hour": {0: h}, "Minute": {0: h, 1: m}, "Second": {0: h, 1: m, 2: s}, "Fraction": {0: h, 1: m, 2: s, 3: f, 4: fp}}}
    p10 = lambda e: Sum([If(e == k, BitVecVal(10 ** k, 32), BitVecVal(0, 32)) for k in range(0, 7)])
    # validity of a DicomTime as its constructors enforce it (from_h .. from_hmsf): leap second 60 allowed
    valid = And(ULE(d, 3), ULT(h, 24), ULT(m, 60), ULE(s, 60), UGE(fp, 1), ULE(fp, 6), ULT(f, p10(ZeroExt(24, fp))))
    nat = native.Native()
    for which, FN in (("earliest", EARLIEST), ("latest", LATEST)):
        M.panics = []
        r = M.call(FN, [R(val)])
        pan = [p for p, _ in M.panics if not is_false(p)]
        t = r["Ok"][0]
        has_m, has_s, has_f = UGE(d, 1), UGE(d, 2), d == 3
        unit = p10(ZeroExt(24, 6 - fp))
        if which == "earliest":
            wm, ws, wf = If(has_m, m, 0), If(has_s, s, 0), If(has_f, f * unit, BitVecVal(0, 32))
        else:
            wm, ws, wf = If(has_m, m, 59), If(has_s, s, 59), If(has_f, f * unit + unit - 1, BitVecVal(999_999, 32))
        # expected instant as microseconds since midnight (a leap second 23:59:60.x is 86_400_000_000 + x)
        micro = lambda hh, mm, ss, us: (ZeroExt(56, hh) * 3600 + ZeroExt(56, mm) * 60 + ZeroExt(56, ss)) * 1_000_000 + ZeroExt(32, us)
        got = (ZeroExt(32, t["h"]) * 3600 + ZeroExt(32, t["m"]) * 60 + ZeroExt(32, t["s"])) * 1_000_000 + ZeroExt(32, t["us"])
        want = micro(h, wm, ws, wf)
        for label, extra, role in (("ordinary seconds (0-59)", Or(Not(has_s), ULT(s, 60)), "c12_time_" + which), ("leap second (60)", And(has_s, s == 60), "c12_time_" + which + "_leap")):
            sol = Solver()
            sol.add(valid, extra, Or(r["disc"] != 0, got != want, Or(pan) if pan else BoolVal(False)))
            res = sol.check()
            rep.evaluations += 1
            name = "DicomTime::%s is Ok and equals the component-wise instant for every valid partial time, %s" % (which, label)
            if res == unsat:
                rep.nontrivial += 1
                rep.obligation(name, "holds")
            elif res == sat:
                mo = sol.model()
                g = lambda x: mo.eval(x, model_completion=True).as_long()
                words = ["time_range", g(d), g(h), g(m), g(s), g(f), g(fp)]
                real = nat.ask(*words)
                rp = rep.replay_file(role, "// engine=M case=c12\n// native: %s   (variant hour minute second fraction precision)\n// real answer (earliest latest as h:m:s:us | ERR): %s\n" % (" ".join(map(str, words)), real))
                wantv = g(want)
                field = real.split()[0 if which == "earliest" else 1] if not real.startswith("ERR") else "ERR"
                bad = field == "ERR" or int(field) != wantv
                if bad and role in known:
                    rep.known_hits.append((role, known[role]))
                    rep.obligation(name, "known-finding", {"input": words, "native": real})
                elif bad:
                    rep.violations.append(("DicomTime %s().%s() -> %s, expected instant %d us after midnight" % (words[1:], which, field, wantv), rp))
                    rep.obligation(name, "violated", {"input": words, "native": real})
                else:
                    rep.inconclusive.append("C12 model %s does not reproduce natively (%s)" % (words, real))
                    rep.obligation(name, "inconclusive", {"input": words, "native": real})
            else:
                rep.inconclusive.append("solver answered %s" % res)
    # translator validation
    for words in ([2, 12, 30, 15, 0, 1], [0, 7, 0, 0, 0, 1], [3, 23, 59, 59, 123, 3], [1, 0, 59, 0, 0, 1]):
        real = nat.ask("time_range", *words)
        rep.validated += 1
        if real.startswith("ERR"):
            rep.inconclusive.append("native earliest/latest failed on a plain time %s" % words)
    nat.close()
