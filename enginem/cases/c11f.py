"""C11 (single-valued float conversions of integer values) — PrimitiveValue::to_float32 / to_float64 of a binary integer value return the
first item converted exactly as Rust's `as` does (round to nearest, ties to even), or an error for an empty value.
Encoded (container mode): MIR of PrimitiveValue::to_float32 / to_float64; <f32|f64 as NumCast>::from::<int> is the contract
"Some(value as float)" (num-traits: every integer converts); the oracle is z3's correctly rounded integer -> IEEE-754 conversion."""
import os, re
from z3 import *
import core, mirdump, native

SRC = {"U8": (8, False), "U16": (16, False), "I16": (16, True), "U32": (32, False), "I32": (32, True), "U64": (64, False), "I64": (64, True)}
d = core._d


def to_fp(v, signed, sort):
    return fpSignedToFP(RNE(), v, sort) if signed else fpUnsignedToFP(RNE(), v, sort)


def contracts(c, args, ctx):
    m = re.fullmatch(r"<f(32|64) as NumCast>::from::<([iu])(8|16|32|64)>", c)
    if m:
        sort = Float32() if m.group(1) == "32" else Float64()
        v = d(args[0])
        if isinstance(v, int): v = BitVecVal(v, int(m.group(3)))
        return core.Enum("Some", [to_fp(v, m.group(2) == "i", sort)])
    m = re.fullmatch(r"<f64 as NumCast>::from::<f32>|<f32 as NumCast>::from::<f64>", c)
    if m:
        return core.Enum("Some", [fpToFP(RNE(), d(args[0]), Float32() if c.startswith("<f32") else Float64())])
    m = re.fullmatch(r"(.*) as f(32|64) \(FloatToFloat\)", c)
    return NotImplemented


def run(rep, tier, seed, known, part):
    path, _ = mirdump.dump("dicom-core")
    core.load([path])
    os.remove(path)
    core.EXTRA_CONTRACTS[:] = [contracts]
    rep.functions += ["dicom_core::value::primitive::PrimitiveValue::to_float32", "dicom_core::value::primitive::PrimitiveValue::to_float64"]
    nat = native.Native()
    try:
        for tname, sort, bitsf in (("float32", Float32(), 32), ("float64", Float64(), 64)):
            F = next(n for n in core.FNS if n.endswith("::to_" + tname) and "primitive" in n)
            for variant, (bits, signed) in SRC.items():
                for n in (0, 1, 2):
                    if tier == "quick" and n == 2 and variant not in ("U64", "I32"): continue
                    vals = [BitVec("v%d" % i, bits) for i in range(n)]
                    box = {}

                    def build(ctx, variant=variant, vals=vals, signed=signed, sort=sort, n=n):
                        pv = core.Enum(variant, [core.VecV(vals)])
                        r = core.run_fn(F, [core.Ref(core.Cell(pv))], ctx)
                        box["ok"] = r.variant == "Ok"
                        if n == 0:
                            return BoolVal(r.variant == "Ok")            # nothing to convert: must be an error
                        if r.variant != "Ok":
                            return BoolVal(True)
                        got = r.f[0]
                        want = to_fp(vals[0], signed, sort)
                        ctx.bad = Not(fpToIEEEBV(got) == fpToIEEEBV(want))
                        return ctx.bad

                    res = core.explore(build)
                    rep.nontrivial += res["paths"]
                    name = "to_%s on %s with %d item(s): the first item, correctly rounded; empty value => Err" % (tname, variant, n)
                    if res["violation"]:
                        model = res["violation"][0]
                        xs = []
                        for v in vals:
                            x = model.eval(v, model_completion=True).as_long()
                            if signed and x >= 1 << (bits - 1): x -= 1 << bits
                            xs.append(x)
                        real = nat.ask("to_float", tname, variant, *xs)
                        rp = rep.replay_file("c11f_%s_%s_%d" % (tname, variant, n), "// engine=M case=c11f\n// native: to_float %s %s %s\n// real (bits of the result, bits of `first as float`): %s\n" % (tname, variant, " ".join(map(str, xs)), real))
                        parts = real.split()
                        bad = (n == 0 and parts[0] == "OK") or (n > 0 and (parts[0] != "OK" or parts[1] != parts[2]))
                        if bad:
                            rep.violations.append(("to_%s of %s%s: %s (result bits vs bits of the first item converted with `as`)" % (tname, variant, xs, real), rp))
                            rep.obligation(name, "violated", {"input": xs, "native": real})
                        else:
                            rep.inconclusive.append("C11 float counterexample does not reproduce natively: to_%s %s %s -> %s" % (tname, variant, xs, real))
                            rep.obligation(name, "inconclusive", {"input": xs, "native": real})
                    else:
                        rep.validated += 1
                        rep.obligation(name, "holds", {"paths": res["paths"]})
    finally:
        nat.close()
        core.EXTRA_CONTRACTS[:] = []
