"""C34 (writers and the PDU receiver) — if the underlying writer or reader fails at any call, the operation returns an error: it never
reports success after a failed call and never panics.
Encoded (container mode), reusing the machinery of the C04, C25 and C27 cases: the byte sink / transport is a contract whose k-th call fails
with an I/O error, k chosen by the solver (any call, or none).  (a) DataSetWriter::write over token streams (all three codecs, both
strategies); (b) StatefulEncoder::encode_primitive_element; (c) write_pdu on an A-ASSOCIATE-RQ with every user sub-item kind and on P-DATA;
(d) encode_pdu; (e) read_pdu_from_wire with a transport that fails at a solver-chosen read.  Negated property: the operation returned Ok
although a call of the sink / transport had failed, or a panic call is reachable."""
import os, re
from z3 import *
import core, mirdump, native
from cases import c04, c25rq, c27, c28

d = core._d


def run(rep, tier, seed, known, part):
    rep.functions += ["dicom_parser::dataset::write::DataSetWriter::write (+ StatefulEncoder, codecs) over a failing writer", "dicom_parser::stateful::encode::StatefulEncoder::encode_primitive_element over a failing writer",
                      "dicom_ul::pdu::writer::write_pdu over a failing writer", "dicom_ul::association::encode_pdu", "dicom_ul::association::read_pdu_from_wire over a failing transport"]
    nat = native.Native()
    try:
        data_sets(rep, tier, nat)
        pdus(rep, tier, nat)
    finally:
        nat.close()


def verdict(rep, nat, name, res, box, what, native_cmd):
    """native_cmd(k) -> words of the io_fail command with the writer / transport failing at call k; the real operation must answer ERR
    whenever the failing call was reached (its own counters say so)"""
    def bad(real):
        # "OK failed=true ..." (data set writer, PDU writer) or an "OK*" entry (receiver: the call during which the read failed returned Ok)
        return (real.startswith("OK") and "failed=true" in real) or "OK*" in real
    if res["violation"]:
        k = box.get("k", 1)
        real = nat.ask(*native_cmd(k))
        rp = rep.replay_file("c34_" + re.sub(r"\W+", "_", what)[:40], "// engine=M case=c34\n// %s\n// encoding: %s\n// native: %s -> %s\n" % (what, box.get("problem"), " ".join(map(str, native_cmd(k))), real))
        if bad(real) or "panic" in str(box.get("problem")) and real.startswith("PANIC"):
            rep.violations.append(("%s: %s (real: %s)" % (what, box.get("problem"), real), rp))
            rep.obligation(name, "violated", {"problem": box.get("problem"), "native": real})
        else:
            rep.inconclusive.append("C34 counterexample does not reproduce natively: %s: %s -> %s" % (what, box.get("problem"), real))
            rep.obligation(name, "inconclusive", {"problem": box.get("problem"), "native": real})
    else:
        if not box.get("failed_paths"): rep.inconclusive.append("vacuous: no path of '%s' had a failing call" % name[:60])
        for k in (1, 2, 5, 9):
            real = nat.ask(*native_cmd(k))
            if bad(real) or real.startswith("PANIC"): rep.inconclusive.append("native %s with call %d failing answered %s although the encoding holds" % (what, k, real))
        rep.validated += 1
        rep.obligation(name, "holds", {"paths": res["paths"], "paths_with_a_failing_call": box.get("failed_paths", 0)})


def data_sets(rep, tier, nat):
    paths = {k: mirdump.dump(k)[0] for k in ("dicom-parser", "dicom-encoding", "dicom-core")}
    try:
        core.load([paths["dicom-parser"], paths["dicom-encoding"], paths["dicom-core"]])
        c04.IMPL.clear(); c04.find_impls()
        core.EXTRA_CONTRACTS[:] = [c04.contracts]
        core.ENUMS.update({"DataToken::" + n: k for k, n in enumerate(c04.TOKS)})
        core.ENUMS.update({"SeqTokenType::Sequence": 0, "SeqTokenType::Item": 1})
        WRITE = next(n for n in core.FNS if re.search(r"<impl at parser/src/dataset/write.rs:[^>]*>::write$", n))
        FLUSH = next((n for n in core.FNS if re.search(r"<impl at parser/src/dataset/write.rs:[^>]*>::flush$", n)), None)
        for codec in (("ele",) if tier == "quick" else ("ele", "ile", "ebe")):
            c04.ENC["kind"] = codec
            for nochange in (False, True):
                box = {}
                el = c04.elem_size(codec, "US", 2)
                toks = [("S", (0x0008, 0x1115), c04.UNDEF if not nochange else 8 + el + (0 if nochange else 0)), ("I", el if nochange else c04.UNDEF), ("E", (0x0028, 0x0010), "US", 1, "a"), ("i",), ("s",),
                        ("E", (0x0010, 0x0010), "PN", 3, "b"), ("P",), ("I", 0), ("i",), ("I", 3), ("F", 3, "p"), ("i",), ("s",)]
                if nochange: toks[0] = ("S", (0x0008, 0x1115), 8 + el)

                def build(ctx, toks=toks, nochange=nochange):
                    sink = c04.FailSink(BitVec("fail_at", 8), Bool("zero_length_write"))
                    printer = core.Struct([sink, core.Struct([]), core.Enum("Default", []), BitVecVal(0, 64), c04.Sink([])])
                    strat = core.Enum("NoChange" if nochange else "SetUndefined", []); strat.idx = 1 if nochange else 0
                    dw = core.Struct([printer, core.VecV([]), core.Enum("None", []), core.Struct([strat])])
                    ref = core.Ref(core.Cell(dw))
                    L = lambda x: BitVecVal(x, 32)
                    try:
                        for t in toks:
                            k = t[0]
                            if k == "S": ts_ = [c04.tok("SequenceStart", [core.Struct([BitVecVal(t[1][0], 16), BitVecVal(t[1][1], 16)]), core.Struct([L(t[2])])])]
                            elif k == "I": ts_ = [c04.tok("ItemStart", [core.Struct([L(t[1])])])]
                            elif k == "i": ts_ = [c04.tok("ItemEnd", [])]
                            elif k == "s": ts_ = [c04.tok("SequenceEnd", [])]
                            elif k == "P": ts_ = [c04.tok("PixelSequenceStart", [])]
                            elif k == "E":
                                g, e = t[1]
                                val = core.Enum("U16", [core.VecV([BitVec("%s_v" % t[4], 16)])]) if t[2] == "US" else core.Enum("Str", [c04.sym_text("%s_c" % t[4], t[3], ctx.pc)])
                                ts_ = [c04.tok("ElementHeader", [c04.header(BitVecVal(g, 16), BitVecVal(e, 16), t[2], BitVecVal(0, 32))]), c04.tok("PrimitiveValue", [val])]
                            elif k == "F": ts_ = [c04.tok("ItemValue", [c04.Sink([BitVec("%s_f%d" % (t[2], j), 8) for j in range(t[1])])])]
                            for tk in ts_:
                                r = core.run_fn(WRITE, [ref, tk], ctx)
                                if r.variant != "Ok":
                                    if sink.failed: box["failed_paths"] = box.get("failed_paths", 0) + 1
                                    else: box["problem"] = "write(%s) returned an error although no call of the writer failed" % tk.variant
                                    return BoolVal(not sink.failed)
                                if sink.failed:
                                    box["k"] = sink.calls; box["kind"] = sink.kind
                                    box["problem"] = "write(%s) returned Ok although call %d of the underlying writer failed" % (tk.variant, sink.calls); return BoolVal(True)
                    except core.ReachablePanic as ex:
                        box["problem"] = "panic reachable: %s" % ex; return BoolVal(True)
                    box["clean"] = box.get("clean", 0) + 1
                    return BoolVal(False)

                res = core.explore(build)
                rep.nontrivial += res["paths"]
                name = "DataSetWriter::write over a token stream (sequence, element, text element, encapsulated pixel data) [%s, %s strategy] with the writer failing at a solver-chosen call: Err, never Ok after the failure" % (codec, "NoChange" if nochange else "default")
                verdict(rep, nat, name, res, box, "data set writer %s %s" % (codec, "NoChange" if nochange else "default"),
                        lambda k, codec=codec, nochange=nochange, box=box: ["io_fail", "ds", codec, "nochange" if nochange else "default", k, box.get("kind", "err")])
    finally:
        core.EXTRA_CONTRACTS[:] = []
        for p in paths.values():
            try: os.remove(p)
            except OSError: pass


def pdus(rep, tier, nat):
    pu, _ = mirdump.dump("dicom-ul")
    core.load([pu])
    os.remove(pu)
    try:
        # ---- write_pdu on an A-ASSOCIATE-RQ and encode_pdu on P-DATA, failing writer
        core.EXTRA_CONTRACTS[:] = [c25rq.contracts]
        core.DISC.update({"Unknown": 0, "AssociationRQ": 1, "AssociationAC": 2, "AssociationRJ": 3, "PData": 4, "ReleaseRQ": 5, "ReleaseRP": 6, "AbortRQ": 7,
                          "MaxLength": 1, "ImplementationClassUID": 2, "ImplementationVersionName": 3, "SopClassExtendedNegotiationSubItem": 4, "ScuScpRoleSelectionSubItem": 5, "UserIdentityItem": 6,
                          "Command": 0, "Data": 1, "Username": 0, "UsernamePassword": 1})
        WRITE = next(n for n in core.FNS if n == "write_pdu")
        box = {}

        def build(ctx):
            S = c25rq.S
            uv = core.VecV([core.Enum("MaxLength", [BitVec("maxlen", 32)]), core.Enum("ImplementationClassUID", [S("1.2")]),
                            core.Enum("ScuScpRoleSelectionSubItem", [S("1.2"), core.Struct([Bool("scu"), Bool("scp")])]), core.Enum("ImplementationVersionName", [S("V")])])
            pcs = core.VecV([core.Struct([BitVec("pcid", 8), S("1.2.3"), core.VecV([S("1.2.840.10008.1.2")])])])
            pdu = core.Enum("AssociationRQ", [core.Struct([BitVec("proto", 16), S("CALLING"), S("CALLED-AE"), S("1.2.840.10008.3.1.1.1"), pcs, uv])])
            sink = c04.FailSink(BitVec("fail_at", 8))
            try:
                r = core.run_fn(WRITE, [core.Ref(core.Cell(sink)), core.Ref(core.Cell(pdu))], ctx)
            except core.ReachablePanic as ex:
                box["problem"] = "panic reachable: %s" % ex; return BoolVal(True)
            if sink.failed:
                box["failed_paths"] = box.get("failed_paths", 0) + 1
                if r.variant == "Ok": box["k"] = sink.calls
                box["problem"] = "write_pdu returned Ok although call %d of the underlying writer failed" % sink.calls
                return BoolVal(r.variant == "Ok")
            box["problem"] = "write_pdu returned an error although no call of the writer failed"
            return BoolVal(r.variant != "Ok")

        res = core.explore(build)
        rep.nontrivial += res["paths"]
        verdict(rep, nat, "write_pdu(A-ASSOCIATE-RQ with user sub-items) with the writer failing at a solver-chosen call: Err, never Ok after the failure", res, box, "write_pdu associate rq", lambda k: ["io_fail", "pdu", k])

        # ---- read_pdu_from_wire, failing transport
        core.EXTRA_CONTRACTS[:] = [fail_transport, c27.contracts]
        core.ENUMS.update({"Pdu::" + n: k for k, n in enumerate(["Unknown", "AssociationRQ", "AssociationAC", "AssociationRJ", "PData", "ReleaseRQ", "ReleaseRP", "AbortRQ"])})
        core.ENUMS.update({"PDataValueType::Command": 0, "PDataValueType::Data": 1})
        F = next(n for n in core.FNS if n == "read_pdu_from_wire" or n.endswith("::read_pdu_from_wire"))
        c27.MAX_READS[0] = 3
        box2 = {}

        def build2(ctx):
            stream, want = c27.pdus(ctx, ("p1", "rq"))
            wire = c27.Wire(stream); wire.fail_at = BitVec("fail_read", 8); wire.nreads = 0; wire.failed = False
            rbuf = c27.Bytes([])
            wref, bref = core.Ref(core.Cell(wire)), core.Ref(core.Cell(rbuf))
            try:
                for k, w in enumerate(want):
                    r = core.run_fn(F, [wref, bref, BitVecVal(16378, 32), True], ctx)
                    if wire.failed:
                        box2["failed_paths"] = box2.get("failed_paths", 0) + 1
                        if r.variant == "Ok": box2["k"] = wire.nreads; box2["reads"] = list(wire.reads)
                        box2["problem"] = "receive %d returned Ok although read %d of the transport failed" % (k + 1, wire.nreads)
                        return BoolVal(r.variant == "Ok")
                    if r.variant != "Ok":
                        box2["problem"] = "receive %d returned an error although no read failed" % (k + 1); return BoolVal(True)
            except core.ReachablePanic as ex:
                box2["problem"] = "panic reachable: %s" % ex; return BoolVal(True)
            return BoolVal(False)

        res2 = core.explore(build2, max_paths=60000)
        rep.nontrivial += res2["paths"]
        verdict(rep, nat, "read_pdu_from_wire on the stream p1+rq in up to 3 reads with the transport failing at a solver-chosen read: Err, never Ok from the failing call", res2, box2, "read_pdu_from_wire", lambda k: ["io_fail", "read", k, ",".join(map(str, box2.get("reads", [5, 7]))) or "-"])
    finally:
        core.EXTRA_CONTRACTS[:] = []


def fail_transport(c, args, ctx):
    if re.fullmatch(r"<BufReader<&mut R> as BufRead>::fill_buf", c):
        w = d(d(args[0]).f[0])
        w.nreads += 1
        if not w.failed and ctx.branch(w.fail_at == w.nreads):
            w.failed = True
            return core.Enum("Err", [("opaque", "std::io::Error")])
    return NotImplemented
