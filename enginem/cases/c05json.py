"""C05 (DICOM JSON clause, element level) — deserialising a data element object never panics, whatever members it has and in whatever order.
Encoded (container mode): MIR of dicom_json::de::<impl Visitor for DataElementVisitor<D>>::visit_map. The serde `MapAccess` is a contract
driven by symbolic variables: the number of members (0..3), which member each one is (vr / Value / InlineBinary / BulkDataURI / something
else) and which VR text the vr member carries are solver-chosen; `serde_json::from_value` and the base64 decoder are contracts that may
succeed (with an empty list) or fail. A call of core::panicking::* that the solver can reach is the violation; the member sequence of the
model is turned into a JSON text and given to the real dicom_json::from_str."""
import os, re
from z3 import *
import core, mirdump, native

d = core._d
KEYS = ["vr", "Value", "InlineBinary", "BulkDataURI", "Other"]
VRS = ["OB", "PN", "SQ", "UN", "US", "LO", "FD", "AT", "zz"]


class ReachedPanic(Exception):
    pass


class Map:
    def __init__(self, n): self.i, self.n, self.keys, self.vrs = 0, n, [], []


def contracts(c, args, ctx):
    if re.fullmatch(r"<A as MapAccess<'_>>::next_key::<(std::string::)?String>", c):
        m = d(args[0])
        if m.i >= 3 or not ctx.branch(UGT(m.n, m.i)):
            return core.Enum("Ok", [core.Enum("None", [])])
        sel = BitVec("key%d" % m.i, 8)
        ctx.pc.append(ULE(sel, len(KEYS) - 1))
        k = len(KEYS) - 1
        for j in range(len(KEYS) - 1):
            if ctx.branch(sel == j): k = j; break
        m.keys.append(k); m.i += 1
        return core.Enum("Ok", [core.Enum("Some", [core.Str(list(KEYS[k].encode()))])])
    if re.fullmatch(r"<A as MapAccess<'_>>::next_value::<(std::string::)?String>", c):
        m = d(args[0])
        if m.keys and m.keys[-1] == 0:          # the text of the vr member
            sel = BitVec("vr%d" % (m.i - 1), 8)
            ctx.pc.append(ULE(sel, len(VRS) - 1))
            k = len(VRS) - 1
            for j in range(len(VRS) - 1):
                if ctx.branch(sel == j): k = j; break
            m.vrs.append(k)
            return core.Enum("Ok", [core.Str(list(VRS[k].encode()))])
        return core.Enum("Ok", [core.Str(list(b"AA=="))])
    if re.fullmatch(r"<A as MapAccess<'_>>::next_value::<.*>", c):
        return core.Enum("Ok", [core.Struct([("opaque", c)])])
    if re.fullmatch(r"serde_json::from_value::<.*>", c):
        ok = ctx.branch(Bool("from_value_ok"))
        return core.Enum("Ok", [core.VecV([])]) if ok else core.Enum("Err", [("opaque", "serde_json::Error")])
    if re.search(r"as Engine>::decode::<", c):
        ok = ctx.branch(Bool("base64_ok"))
        return core.Enum("Ok", [core.Str([])]) if ok else core.Enum("Err", [("opaque", "DecodeError")])
    if re.fullmatch(r"<<A as MapAccess<'_>>::Error as .*Error>::custom::<[^<>]*>", c):
        return ("opaque", "A::Error")
    if c == "<str as PartialEq>::eq":
        a, b = d(args[0]), d(args[1])
        return list(a.b) == list(b.b) if all(isinstance(x, int) for x in list(a.b) + list(b.b)) else None
    if re.fullmatch(r"<(std::string::)?String as Deref>::deref", c): return d(args[0])
    if re.fullmatch(r"<VR as FromStr>::from_str|<dicom_core::VR as FromStr>::from_str", c):
        s_ = bytes(d(args[0]).b).decode()
        if s_ in core.VRNAMES:
            e = core.Enum(s_, []); e.idx = core.VRNAMES.index(s_); return core.Enum("Ok", [e])
        return core.Enum("Err", [("opaque", "no such VR")])
    if re.fullmatch(r"<Vec<.*> as IntoIterator>::into_iter", c):
        return core.SliceIter(list(d(args[0]).items))
    if re.search(r"as Iterator>::collect::<", c):
        out = []
        while True:
            x = core.iter_next(args[0], ctx)
            if x is None: break
            out.append(x)
        tgt = c[c.index("collect::<") + 10:]
        return core.Enum("Ok", [core.VecV(out)]) if tgt.startswith(("Result<", "std::result::Result<")) else core.VecV(out)
    if re.fullmatch(r"<.* as Into<.*>>::into", c) or re.fullmatch(r"<.* as From<.*>>::from", c):
        return args[0]
    if re.search(r"as FromResidual<.*>>::from_residual$", c):
        r = d(args[0]); return core.Enum("Err", list(r.f))
    return NotImplemented


def run(rep, tier, seed, known, part):
    pj, _ = mirdump.dump("dicom-json")
    core.load([pj])
    os.remove(pj)
    core.EXTRA_CONTRACTS[:] = [contracts]
    core.ENUMS.update({"VR::" + n: k for k, n in enumerate(core.VRNAMES)})
    F = next(n for n in core.FNS if re.search(r"<impl at json/src/de/mod.rs:[^>]*>::visit_map$", n) and "DataElementVisitor" in core.FNS[n].ptext)
    rep.functions += ["dicom_json::de::<impl Visitor for DataElementVisitor<D>>::visit_map"]
    nat = native.Native()
    box = {"panics": []}

    def build(ctx):
        n = BitVec("members", 8)
        ctx.pc.append(ULE(n, 3))
        m = Map(n)
        try:
            r = core.run_fn(F, [core.Struct([]), core.Ref(core.Cell(m))], ctx)
        except core.ReachablePanic as ex:
            box["last"] = (list(m.keys), list(m.vrs), str(ex))
            return BoolVal(True)
        box["completed"] = box.get("completed", 0) + 1
        return BoolVal(False)

    try:
        res = core.explore(build, max_paths=20000)
        rep.nontrivial += res["paths"]
        name = "data element object with 0..3 members (vr / Value / InlineBinary / BulkDataURI / other, any order, any of %d VR texts, from_value and base64 succeeding or failing): no panic is reachable" % len(VRS)
        if res["violation"]:
            keys, vrs, msg = box["last"]
            doc = to_json(keys, vrs)
            real = nat.ask("json_de", doc.encode().hex())
            rp = rep.replay_file("c05_json_members", "// engine=M case=c05json\n// members in order: %s (vr texts %s); reached: %s\n// document: %s\n// real dicom_json::from_str: %s\n" % ([KEYS[k] for k in keys], [VRS[k] for k in vrs], msg, doc, real))
            if real.startswith("PANIC"):
                rep.violations.append(("dicom_json::from_str panics on %s (%s)" % (doc, msg), rp))
                rep.obligation(name, "violated", {"document": doc, "native": real})
            else:
                rep.inconclusive.append("C05 JSON panic path does not reproduce natively: %s -> %s" % (doc, real))
                rep.obligation(name, "inconclusive", {"document": doc, "native": real})
        else:
            rep.validated += 1
            for doc in ('{"00100010":{"vr":"OB","InlineBinary":"AA=="}}', '{"00100010":{"vr":"PN","Value":[{"Alphabetic":"A"}]}}', '{"00100010":{"Value":[1]}}'):
                real = nat.ask("json_de", doc.encode().hex())
                if real.startswith("PANIC"): rep.inconclusive.append("native deserialisation of %s panics although the encoding found no panic" % doc)
            if not box.get("completed"): rep.inconclusive.append("vacuous: no path of visit_map ran to completion")
            rep.obligation(name, "holds", {"paths": res["paths"], "completed_paths": box.get("completed", 0)})
    finally:
        nat.close()
        core.EXTRA_CONTRACTS[:] = []


def to_json(keys, vrs):
    parts, vi = [], 0
    for k in keys:
        if k == 0:
            parts.append('"vr":"%s"' % VRS[vrs[vi]]); vi += 1
        elif k == 1: parts.append('"Value":[]')
        elif k == 2: parts.append('"InlineBinary":"AA=="')
        elif k == 3: parts.append('"BulkDataURI":"http://x/y"')
        else: parts.append('"Other":1')
    return '{"00100010":{%s}}' % ",".join(parts)
