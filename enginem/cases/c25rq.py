"""C25 (length fields of association PDUs) — every length field that write_pdu emits for A-ASSOCIATE-RQ / -AC matches the content it
describes.  Encoded (container mode): MIR of dicom_ul::pdu::writer::write_pdu with all its closures and helpers; the output is a byte
vector of concrete shape with symbolic bytes, read by an independent PS3.8 item walker."""
import os, re
from z3 import *
import core, mirdump, native

d = core._d


class Sink(core.Str):
    """Vec<u8> / dyn Write: a growing byte list"""
    pass


def be(v, n):
    if isinstance(v, int):
        return [(v >> (8 * (n - 1 - k))) & 0xFF for k in range(n)]
    out = [simplify(Extract(8 * (n - k) - 1, 8 * (n - 1 - k), v)) for k in range(n)]
    return [x.as_long() if is_bv_value(x) else x for x in out]


def norm(v):
    if isinstance(v, int): return v & 0xFF
    v = simplify(v)
    return v.as_long() if is_bv_value(v) else v


def contracts(c, args, ctx):
    r = contracts_(c, args, ctx)
    for a in args[:1]:
        try:
            s = d(a)
        except Exception:
            continue
        if isinstance(s, core.Str): s.b[:] = [norm(x) for x in s.b]
    return r


def contracts_(c, args, ctx):
    if re.search(r"as WriteBytesExt>::write_u(8|16|32)(::<BigEndian>)?$", c) or re.search(r"as (std::io::)?Write>::write_all$", c):
        from cases import c04 as _c04
        if _c04.io_fails(d(args[0]), ctx): return core.Enum("Err", [_c04.IO_ERR])
    if re.search(r"as WriteBytesExt>::write_u8$", c):
        v = args[1]
        if not isinstance(v, int):
            v = simplify(v)
            if is_bv_value(v): v = v.as_long()
        d(args[0]).b.append(v); return core.Enum("Ok", [None])
    m = re.search(r"as WriteBytesExt>::write_u(16|32)::<BigEndian>$", c)
    if m:
        n = int(m.group(1)) // 8
        v = args[1]
        if not isinstance(v, int) and v.size() != 8 * n:
            v = Extract(8 * n - 1, 0, v) if v.size() > 8 * n else ZeroExt(8 * n - v.size(), v)
        d(args[0]).b.extend(be(v, n)); return core.Enum("Ok", [None])
    if re.search(r"as (std::io::)?Write>::write_all$", c) or re.match(r"Vec::<u8>::extend_from_slice$", c) or re.search(r"as Extend<&u8>>::extend::<", c) or re.search(r"as Extend<u8>>::extend::<", c):
        src = d(args[1])
        data = src.b if isinstance(src, core.Str) else (src.items if isinstance(src, core.VecV) else list(src.f))
        d(args[0]).b.extend(list(data))
        return core.Enum("Ok", [None]) if "write_all" in c else None
    if re.match(r"Vec::<u8>::resize$", c):
        v, n, fill = d(args[0]), args[1], args[2]
        if len(v.b) < n: v.b.extend([fill] * (n - len(v.b)))
        else: del v.b[n:]
        return None
    if re.match(r"Vec::<u8>::truncate$", c):
        del d(args[0]).b[args[1]:]; return None
    if re.match(r"Vec::<u8>::push$", c):
        d(args[0]).b.append(args[1]); return None
    if re.match(r"Vec::<u8>::new$", c) or c == "Vec::<u8>::with_capacity":
        return Sink([])
    if c == "<Vec<u8> as Clone>::clone":
        return Sink(list(d(args[0]).b))
    if c == "Vec::<u8>::as_slice":
        return d(args[0])
    if re.match(r"Vec::<u8>::len$", c):
        return len(d(args[0]).b)
    if re.match(r"<Vec<u8> as Deref>::deref$", c) or re.match(r"<Vec<u8> as DerefMut>::deref_mut$", c):
        return d(args[0])
    if re.search(r"as TextCodec>::encode$", c):
        return core.Enum("Ok", [Sink(list(d(args[1]).b))])          # default repertoire: ASCII text is its own encoding
    if re.search(r"as FnOnce<\(&mut Vec<u8>,\)>>::call_once$", c) or re.search(r"as FnOnce<.*>>::call_once$", c):
        clo, tup = args[0], d(args[1])
        return core.run_fn(core.closure_name(d(clo)), [clo] + list(tup.f), ctx)
    if re.match(r"<u(16|32) as TryFrom<usize>>::try_from$", c):
        bits = int(re.match(r"<u(16|32)", c).group(1))
        v = args[0]
        return core.Enum("Ok", [v]) if v < (1 << bits) else core.Enum("Err", [("opaque", "overflow")])
    if re.match(r"(std::result::)?Result::<u(16|32), .*>::ok$", c):
        r = args[0]
        return core.Enum("Some", [r.f[0]]) if r.variant == "Ok" else core.Enum("None", [])
    if re.search(r"as OptionExt<.*>>::context::<", c):
        o = args[0]
        return core.Enum("Ok", [o.f[0]]) if o.variant == "Some" else core.Enum("Err", [("opaque", "context")])
    if re.match(r"String::as_bytes$|core::str::<impl str>::as_bytes$", c):
        return d(args[0])
    if re.search(r"::fail::<|Snafu::fail$", c):
        return core.Enum("Err", [("opaque", c)])
    if re.search(r"as From<.*>>::from$", c) and "Box<" in c:
        return args[0]
    if c.endswith("UserIdentityType::to_u8"):
        return NotImplemented
    return NotImplemented


def walk_items(b, start, end, problems, depth=0):
    """PS3.8 9.3.2 / PS3.7 D.3.3 item walker: type(1) reserved(1) length(2 BE) content; the items must tile [start, end) exactly, and the
    length fields nested in the sub-items (UID-length, primary/secondary field length) must agree with the item length"""
    at = start
    u16 = lambda o: (b[o] << 8) | b[o + 1]
    while at < end:
        if end - at < 4:
            problems.append("dangling %d byte(s) at offset %d" % (end - at, at)); return False
        ty, l1, l0 = b[at], b[at + 2], b[at + 3]
        if not all(isinstance(x, int) for x in (ty, l1, l0)):
            problems.append("symbolic item header at %d" % at); return False
        ln = (l1 << 8) | l0
        if at + 4 + ln > end:
            problems.append("item 0x%02x at offset %d declares %d bytes, only %d left" % (ty, at, ln, end - at - 4)); return False
        c = at + 4
        inner = None
        if ty == 0x20 or ty == 0x21:            # presentation context: id(1) res(1) result/res(1) res(1) then sub-items
            walk_items(b, at + 8, at + 4 + ln, problems, depth + 1)
        elif ty == 0x50:                        # user information: sub-items
            walk_items(b, at + 4, at + 4 + ln, problems, depth + 1)
        elif ty == 0x51:
            inner = [4]
        elif ty == 0x54:                        # role selection: uid-length(2) uid scu(1) scp(1)
            inner = [b[c], b[c + 1]] if ln >= 2 else None
            if inner and all(isinstance(x, int) for x in inner): inner = [2 + u16(c) + 2]
        elif ty == 0x56:                        # extended negotiation: uid-length(2) uid app-info
            inner = [b[c], b[c + 1]] if ln >= 2 else None
            if inner and all(isinstance(x, int) for x in inner): inner = range(2 + u16(c), 1 << 17)
        elif ty == 0x58:                        # user identity: type(1) prr(1) plen(2) primary slen(2) secondary
            hd = [b[c + 2], b[c + 3]] if ln >= 6 else None
            if hd and all(isinstance(x, int) for x in hd):
                pl = u16(c + 2)
                tl = [b[c + 4 + pl], b[c + 5 + pl]] if ln >= 6 + pl else None
                inner = [6 + pl + u16(c + 4 + pl)] if tl and all(isinstance(x, int) for x in tl) else tl
            else:
                inner = hd
        if ty in (0x51, 0x54, 0x56, 0x58):
            if inner is None or (isinstance(inner, list) and any(not isinstance(x, int) for x in inner)):
                problems.append("item 0x%02x at offset %d: nested length field missing or symbolic" % (ty, at))
            elif ln not in inner:
                problems.append("item 0x%02x at offset %d: item length %d disagrees with its nested length fields" % (ty, at, ln))
        at += 4 + ln
    return at == end


def S(text):
    return core.Str(list(text.encode()))


def sym_str(prefix, n, pc):
    bs = [BitVec("%s_%d" % (prefix, k), 8) for k in range(n)]
    for b in bs:
        pc.append(And(UGE(b, 0x30), ULE(b, 0x39)))          # UID characters (digits): default repertoire, no padding characters
    return core.Str(bs)


def run(rep, tier, seed, known, part):
    pu, _ = mirdump.dump("dicom-ul")
    core.load([pu])
    os.remove(pu)
    core.EXTRA_CONTRACTS[:] = [contracts]
    core.DISC.update({"Unknown": 0, "AssociationRQ": 1, "AssociationAC": 2, "AssociationRJ": 3, "PData": 4, "ReleaseRQ": 5, "ReleaseRP": 6, "AbortRQ": 7,
                      "MaxLength": 1, "ImplementationClassUID": 2, "ImplementationVersionName": 3, "SopClassExtendedNegotiationSubItem": 4,
                      "ScuScpRoleSelectionSubItem": 5, "UserIdentityItem": 6,
                      "Acceptance": 0, "UserRejection": 1, "NoReason": 2, "AbstractSyntaxNotSupported": 3, "TransferSyntaxesNotSupported": 4,
                      "Username": 0, "UsernamePassword": 1, "KerberosServiceTicket": 2, "SamlAssertion": 3, "Jwt": 4})
    WRITE = next(n for n in core.FNS if n == "write_pdu")
    rep.functions += ["dicom_ul::pdu::writer::write_pdu (A-ASSOCIATE-RQ arm, all closures)", "write_pdu_variable_application_context_name / _presentation_context_proposed / _user_variables",
                      "write_chunk_u16 / write_chunk_u32"]
    nat = native.Native()
    # instances: lengths of the UIDs are concrete per instance (they decide the shape of the output), their characters are symbolic
    uid_lens = [(1, 1, 1), (2, 3, 1), (3, 2, 2)] if tier == "quick" else [(a, b, c) for a in (1, 2, 3) for b in (1, 2, 3) for c in (1, 2)]
    insts = [("rq", l) for l in uid_lens] + [("ac", l) for l in (uid_lens[1:2] if tier == "quick" else uid_lens)]

    def check_bytes(b):
        problems = []
        # PDU header: type 01/02, reserved, 32-bit length == bytes that follow
        hdr = [x if isinstance(x, int) else None for x in b[:6]]
        if None in hdr[:6]:
            problems.append("symbolic PDU header")
        else:
            if hdr[0] not in (1, 2) or hdr[1] != 0:
                problems.append("PDU type / reserved byte")
            if int.from_bytes(bytes(hdr[2:6]), "big") != len(b) - 6:
                problems.append("PDU length %d != %d bytes that follow" % (int.from_bytes(bytes(hdr[2:6]), "big"), len(b) - 6))
        # fixed part: protocol(2) reserved(2) called(16) calling(16) reserved(32) = 68 bytes, then variable items
        walk_items(b, 6 + 68, len(b), problems)
        return problems

    for (kind, (la, lt, lu)) in insts:
        box = {}

        def build(ctx, kind=kind, la=la, lt=lt, lu=lu):
            pc = ctx.pc
            uv = core.VecV([
                core.Enum("MaxLength", [BitVec("maxlen", 32)]),
                core.Enum("ImplementationClassUID", [sym_str("icu", lu, pc)]),
                core.Enum("ScuScpRoleSelectionSubItem", [sym_str("role_uid", lu, pc), core.Struct([Bool("scu"), Bool("scp")])]),
                core.Enum("SopClassExtendedNegotiationSubItem", [sym_str("ext_uid", lu, pc), Sink([BitVec("ext0", 8), BitVec("ext1", 8)])]),
                core.Enum("ImplementationVersionName", [sym_str("ivn", lu, pc)]),
                core.Enum("UserIdentityItem", [core.Struct([Bool("prr"), core.Enum("UsernamePassword", []), Sink([BitVec("pf0", 8), BitVec("pf1", 8)]), Sink([BitVec("sf0", 8)])])]),
                core.Enum("Unknown", [0x77, Sink([BitVec("unk0", 8)])]),
            ])
            if kind == "rq":
                pcs = core.VecV([core.Struct([BitVec("pcid", 8), sym_str("abs", la, pc), core.VecV([sym_str("ts0_", lt, pc), sym_str("ts1_", 1, pc)])])])
                pdu = core.Enum("AssociationRQ", [core.Struct([BitVec("proto", 16), S("CALLING"), S("CALLED-AE"), sym_str("appctx", la, pc), pcs, uv])])
            else:
                pcs = core.VecV([core.Struct([BitVec("pcid", 8), core.Enum("Acceptance", []), sym_str("ts0_", lt, pc)]),
                                 core.Struct([BitVec("pcid2", 8), core.Enum("TransferSyntaxesNotSupported", []), sym_str("ts1_", 1, pc)])])
                pdu = core.Enum("AssociationAC", [core.Struct([BitVec("proto", 16), S("CALLING"), S("CALLED-AE"), sym_str("appctx", la, pc), pcs, uv])])
            sink = Sink([])
            r = core.run_fn(WRITE, [core.Ref(core.Cell(sink)), core.Ref(core.Cell(pdu))], ctx)
            box["bytes"] = list(sink.b)
            box["r"] = r
            if r.variant != "Ok":
                return BoolVal(True)
            problems = check_bytes(sink.b)
            box["problems"] = problems
            if os.environ.get("C25RQ_DUMP"): print([x if isinstance(x, int) else "?" for x in sink.b])
            return BoolVal(bool(problems))

        res = core.explore(build)
        rep.nontrivial += res["paths"]
        K = "A-ASSOCIATE-%s" % kind.upper()
        name = "%s (UID lengths %d/%d/%d, every user sub-item kind): every item and nested length field matches its content (independent PS3.8 item walker)" % (K, la, lt, lu)
        real = nat.ask("assoc_bytes", kind, la, lt, lu)
        rb = list(bytes.fromhex(real[4:])) if real.startswith("HEX ") else None
        real_problems = check_bytes(rb) if rb is not None else [real]
        if res["violation"]:
            rp = rep.replay_file("c25_%s_%d%d%d" % (kind, la, lt, lu), "// engine=M case=c25rq\n// native: assoc_bytes %s %d %d %d\n// encoding: %s\n// real bytes %s\n// walked: %s\n" % (kind, la, lt, lu, box.get("problems"), real, real_problems))
            if real_problems:
                rep.violations.append(("%s length fields: %s (real bytes: %s)" % (K, box.get("problems"), real_problems), rp))
                rep.obligation(name, "violated", {"problems": box.get("problems"), "native": real_problems})
            else:
                rep.inconclusive.append("C25 association PDU counterexample does not reproduce natively: %s vs %s" % (box.get("problems"), real[:40]))
                rep.obligation(name, "inconclusive", {"problems": box.get("problems"), "native": real[:80]})
        else:
            rep.validated += 1
            if rb is None or len(rb) != len(box.get("bytes", [])) or real_problems:
                rep.inconclusive.append("native %s has %s bytes / %s, the encoding produced %d bytes" % (K, len(rb or []), real_problems, len(box.get("bytes", []))))
            rep.obligation(name, "holds", {"paths": res["paths"], "bytes": len(box.get("bytes", []))})
    nat.close()
    core.EXTRA_CONTRACTS[:] = []
