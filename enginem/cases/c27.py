"""C27 (synchronous receiver) — however the transport splits the byte stream, successive calls of read_pdu_from_wire return exactly the PDUs
that were sent, in order, losing and duplicating nothing.
Encoded (container mode): MIR of dicom_ul::association::read_pdu_from_wire and of dicom_ul::pdu::reader::read_pdu (the arms of the PDUs
used). The stream is the concatenation of 2-3 small PDUs (release request / reply, abort, one-PDV P-DATA with symbolic context id, flags
and payload); the transport hands it out in up to 4 reads whose sizes the solver chooses (every split point), and may also deliver it all at
once. `BufReader`, `BytesMut`, `Cursor` and the `bytes::Buf` accessors are contracts over byte lists."""
import os, re
from z3 import *
import core, mirdump, native
from cases import c28

d = core._d
pick = c28.pick


class Bytes(core.Str):
    """BytesMut / Bytes / &[u8]: a byte list consumed from the front"""
    pass


class Cursor:
    def __init__(self, data): self.data, self.pos = data, 0
    def rest(self): return self.data.b[self.pos:]


MAX_READS = [4]


class Wire:
    """the transport: the whole stream and the read sizes chosen so far"""
    def __init__(self, stream): self.stream, self.at, self.reads = stream, 0, []


def be(v, n):
    if isinstance(v, int): return [(v >> (8 * (n - 1 - k))) & 0xFF for k in range(n)]
    raise core.NotEncodable("symbolic length")


def contracts(c, args, ctx):
    if re.fullmatch(r"BufReader::<&mut R>::new", c): return core.Struct([args[0]])
    if re.fullmatch(r"<BufReader<&mut R> as BufRead>::fill_buf", c):
        w = d(d(args[0]).f[0])
        left = len(w.stream) - w.at
        if left == 0:
            w.last = 0; return core.Enum("Ok", [Bytes([])])
        if len(w.reads) >= MAX_READS[0] - 1: n = left          # the last read delivers the rest
        else: n = pick(ctx, "read%d" % len(w.reads), left) + 1
        w.reads.append(n); w.last = n
        chunk = Bytes(list(w.stream[w.at:w.at + n])); w.at += n
        return core.Enum("Ok", [chunk])
    if re.fullmatch(r"<BufReader<&mut R> as BufRead>::consume", c): return None
    if c == "BytesMut::extend_from_slice": d(args[0]).b.extend(list(d(args[1]).b)); return None
    if c == "<BytesMut as Deref>::deref" or c == "<[u8] as Index<RangeFull>>::index" or c == "<bytes::Bytes as Deref>::deref" or c == "<bytes::Bytes as AsRef<[u8]>>::as_ref":
        return d(args[0])
    if c == "BytesMut::clear": del d(args[0]).b[:]; return None
    if c == "BytesMut::truncate": del d(args[0]).b[core.concrete_index(args[1]):]; return None
    if c == "BytesMut::len": return len(d(args[0]).b)
    if c == "BytesMut::is_empty": return len(d(args[0]).b) == 0
    if c == "BytesMut::split_to":
        n = core.concrete_index(args[1]); b = d(args[0]).b; out = Bytes(b[:n]); del b[:n]; return out
    if c == "<BytesMut as Buf>::advance":
        n = core.concrete_index(args[1]); del d(args[0]).b[:n]; return None
    if c == "std::io::Cursor::<&[u8]>::new": return Cursor(d(args[0]))
    if c == "std::io::Cursor::<&[u8]>::position": return BitVecVal(d(args[0]).pos, 64)
    if c == "std::io::Cursor::<&[u8]>::set_position": d(args[0]).pos = core.concrete_index(args[1]); return None
    m = re.fullmatch(r"<(impl Buf|bytes::Bytes|&mut std::io::Cursor<&\[u8\]>) as Buf>::(remaining|has_remaining|copy_to_bytes|get_u8|get_u16|get_u32|advance)", c)
    if m:
        src = d(args[0]); meth = m.group(2)
        def avail(): return len(src.rest()) if isinstance(src, Cursor) else len(src.b)
        def take(n):
            if n > avail(): raise core.ReachablePanic("Buf::%s past the end of the buffer" % meth)
            if isinstance(src, Cursor):
                out = src.data.b[src.pos:src.pos + n]; src.pos += n
            else:
                out = src.b[:n]; del src.b[:n]
            return list(out)
        if meth == "remaining": return avail()
        if meth == "has_remaining": return avail() > 0
        if meth == "copy_to_bytes": return Bytes(take(core.concrete_index(args[1])))
        if meth == "advance": take(core.concrete_index(args[1])); return None
        n = {"get_u8": 1, "get_u16": 2, "get_u32": 4}[meth]
        bs = take(n)
        if all(isinstance(x, int) for x in bs): return BitVecVal(int.from_bytes(bytes(bs), "big"), 8 * n)
        parts = [BitVecVal(x, 8) if isinstance(x, int) else x for x in bs]
        return simplify(Concat(*parts)) if n > 1 else parts[0]
    if re.fullmatch(r"<bytes::Bytes as Index<usize>>::index|<\[u8\] as Index<usize>>::index", c):
        return d(args[0]).b[core.concrete_index(args[1])]
    if re.fullmatch(r"std::slice::<impl \[u8\]>::to_vec|<\[u8\] as ToOwned>::to_owned", c): return core.Str(list(d(args[0]).b))
    if re.search(r"Snafu(::<.*>)?::fail(::<.*>)?$", c): return core.Enum("Err", [("opaque", c[:50])])
    if re.search(r"as ResultExt<.*>>::context::<", c):
        r = args[0]; return r if r.variant == "Ok" else core.Enum("Err", [("opaque", "context")])
    if re.search(r"as OptionExt<.*>>::(with_)?context::<", c):
        o = d(args[0]); return core.Enum("Ok", [o.f[0]]) if o.variant == "Some" else core.Enum("Err", [("opaque", "context")])
    if re.search(r"as FromResidual<.*>>::from_residual$", c):
        r = d(args[0]); return core.Enum("Err", list(r.f))
    if re.fullmatch(r"Vec::<pdu::PDataValue>::(new|with_capacity)", c): return core.VecV([])
    if c in ("pdu::AbortRQSource::from", "AbortRQSource::from"): return NotImplemented
    if "tracing" in c or "Callsite" in c or "LevelFilter" in c or "Interest::" in c: raise core.NotEncodable("tracing reached: " + c[:60])
    return NotImplemented


def pdus(ctx, which):
    """-> (bytes of the stream, expected description list)"""
    stream, want = [], []
    for k, kind in enumerate(which):
        if kind == "rq": stream += [5, 0, 0, 0, 0, 4, 0, 0, 0, 0]; want.append(("ReleaseRQ",))
        elif kind == "rp": stream += [6, 0, 0, 0, 0, 4, 0, 0, 0, 0]; want.append(("ReleaseRP",))
        elif kind == "ab": stream += [7, 0, 0, 0, 0, 4, 0, 0, 0, 0]; want.append(("AbortRQ",))
        else:
            n = int(kind[1:])
            pc, hdr = BitVec("pc%d" % k, 8), BitVec("hdr%d" % k, 8)
            ctx.pc.append(ULE(hdr, 3))
            data = [BitVec("d%d_%d" % (k, j), 8) for j in range(n)]
            stream += [4, 0] + be(4 + 2 + n, 4) + be(2 + n, 4) + [pc, hdr] + data
            want.append(("PData", pc, hdr, data))
    return stream, want


def run(rep, tier, seed, known, part):
    pu, _ = mirdump.dump("dicom-ul")
    core.load([pu])
    os.remove(pu)
    core.EXTRA_CONTRACTS[:] = [contracts]
    core.ENUMS.update({"Pdu::" + n: k for k, n in enumerate(["Unknown", "AssociationRQ", "AssociationAC", "AssociationRJ", "PData", "ReleaseRQ", "ReleaseRP", "AbortRQ"])})
    core.ENUMS.update({"PDataValueType::Command": 0, "PDataValueType::Data": 1})
    F = next(n for n in core.FNS if n == "read_pdu_from_wire" or n.endswith("::read_pdu_from_wire"))
    rep.functions += ["dicom_ul::association::read_pdu_from_wire", "dicom_ul::pdu::reader::read_pdu (release, abort and P-DATA arms)"]
    nat = native.Native()
    MAX_READS[0] = 3 if tier == "quick" else 4
    seqs = [("rq", "rp"), ("p1", "rq"), ("p2", "p0", "rp")] if tier == "quick" else [("rq", "rp"), ("p1", "rq"), ("p2", "p0", "rp"), ("rq", "p3"), ("ab", "rq", "rp"), ("p1", "p1")]
    try:
        for which in seqs:
            one(rep, nat, F, which)
    finally:
        nat.close()
        core.EXTRA_CONTRACTS[:] = []


def one(rep, nat, F, which):
    box = {}

    def build(ctx):
        stream, want = pdus(ctx, which)
        wire = Wire(stream)
        rbuf = Bytes([])
        wref, bref = core.Ref(core.Cell(wire)), core.Ref(core.Cell(rbuf))
        problems, conds = [], []
        for k, w in enumerate(want):
            try:
                r = core.run_fn(F, [wref, bref, BitVecVal(16378, 32), True], ctx)
            except core.ReachablePanic as ex:
                problems.append("receive %d panics: %s" % (k + 1, ex)); break
            if r.variant != "Ok":
                problems.append("receive %d of %d returned an error" % (k + 1, len(want))); break
            p = d(r.f[0])
            if p.variant != w[0]:
                problems.append("receive %d returned %s, %s was sent" % (k + 1, p.variant, w[0])); break
            if w[0] == "PData":
                vals = d(p.f[0]).items
                if len(vals) != 1: problems.append("receive %d: %d PDVs, 1 was sent" % (k + 1, len(vals))); break
                v = d(vals[0])
                pcid, vt, last, data = v.f[0], d(v.f[1]), v.f[2], d(v.f[3])
                db = list(data.b) if hasattr(data, "b") else list(data.items)
                if len(db) != len(w[3]): problems.append("receive %d: payload of %d bytes, %d were sent" % (k + 1, len(db), len(w[3]))); break
                conds.append(pcid != w[1])
                conds.append((vt.variant == "Command") != (w[2] & 1 == 1))
                lastv = last if not isinstance(last, bool) else BoolVal(last)
                conds.append(lastv != (w[2] & 2 == 2))
                for a, b in zip(db, w[3]): conds.append(a != b)
        box["reads"] = list(wire.reads)
        if not problems and len(rbuf.b) != 0: problems.append("%d bytes are left in the receive buffer after the last PDU" % len(rbuf.b))
        if not problems and wire.at != len(stream): problems.append("%d bytes of the stream were never read" % (len(stream) - wire.at))
        box["problems"] = problems
        ctx.bad = BoolVal(True) if problems else (Or(conds) if conds else BoolVal(False))
        return ctx.bad

    res = core.explore(build, max_paths=60000)
    rep.nontrivial += res["paths"]
    name = "stream %s delivered in up to %d reads of solver-chosen sizes: successive receives return the PDUs in order with nothing lost or left over" % ("+".join(which), MAX_READS[0])
    if res["violation"]:
        reads = box.get("reads", [])
        real = nat.ask("wire", ",".join(which), ",".join(map(str, reads)) or "-")
        rp = rep.replay_file("c27_%s" % "_".join(which), "// engine=M case=c27\n// native: wire %s %s   (PDUs sent, sizes of the transport's reads)\n// encoding: %s\n// real receiver: %s\n" % (",".join(which), ",".join(map(str, reads)), box.get("problems"), real))
        if real.startswith("BAD"):
            rep.violations.append(("PDU reception with reads of %s bytes for the stream %s: %s (real: %s)" % (reads, "+".join(which), box.get("problems") or "a field differs", real), rp))
            rep.obligation(name, "violated", {"reads": reads, "native": real})
        else:
            rep.inconclusive.append("C27 counterexample does not reproduce natively: %s reads %s -> %s" % (which, reads, real))
            rep.obligation(name, "inconclusive", {"reads": reads, "native": real})
    else:
        rep.validated += 1
        total = {"rq": 10, "rp": 10, "ab": 10}
        n = sum(total.get(k, 12 + int(k[1:]) if k[0] == "p" else 0) for k in which)
        for reads in ([n], [1] * 3, [7, 3, 5]):
            real = nat.ask("wire", ",".join(which), ",".join(map(str, reads)))
            if not real.startswith("OK"): rep.inconclusive.append("native receiver on %s with reads %s answered %s" % (which, reads, real))
        rep.obligation(name, "holds", {"paths": res["paths"]})
