"""C12 (text round trip and reported length) — every partial date, time and date-time the constructors admit encodes to text that parses
back to the same value, and the text has the length the value reports.
Encoded (container mode): the values are built by running the MIR of the public constructors on symbolic arguments; then the MIR of
to_encoded (core::fmt through enginem/fmtlib.py, chrono's FixedOffset from chrono's MIR), of PrimitiveValue::{da,tm,dt}_byte_len and of
deserialize::{parse_date_partial, parse_time_partial, parse_datetime_partial, read_number} is executed on the resulting text."""
import os, re
from z3 import *
import core, mirdump, native, fmtlib

d = core._d
P = r"partial::<impl at core/src/value/partial.rs:[^>]*>::"


def fn(pattern):
    c = [n for n in core.FNS if re.search(pattern, n)]
    if len(c) != 1: raise core.NotEncodable("function %s: %s" % (pattern, c))
    return c[0]


def contracts(c, args, ctx):
    m = re.fullmatch(r"<T as Ten>::ten", c)
    if m:
        t = core.GENERICS[-1][0] if core.GENERICS and core.GENERICS[-1] else None
        w = {"u8": 8, "u16": 16, "u32": 32, "u64": 64}.get(t)
        if not w: raise core.NotEncodable("Ten for " + str(t))
        return BitVecVal(10, w)
    m = re.fullmatch(r"<T as From<u8>>::from|<u8 as Into<T>>::into", c)
    if m:
        t = core.GENERICS[-1][0] if core.GENERICS and core.GENERICS[-1] else None
        w = {"u8": 8, "u16": 16, "u32": 32, "u64": 64}.get(t)
        v = args[0]
        if isinstance(v, int): v = BitVecVal(v, 8)
        return ZeroExt(w - 8, v) if w > 8 else v
    m = re.fullmatch(r"<T as (Mul|Add|Sub)>::(mul|add|sub)", c)
    if m:
        a, b = args
        w = (a if not isinstance(a, int) else b).size()
        a = BitVecVal(a, w) if isinstance(a, int) else a
        b = BitVecVal(b, w) if isinstance(b, int) else b
        ea, eb = ZeroExt(w, a), ZeroExt(w, b)
        wide = {"mul": ea * eb, "add": ea + eb, "sub": ea - eb}[m.group(2)]
        res = Extract(w - 1, 0, wide)
        if ctx.branch(ZeroExt(w, res) != wide): raise core.NotEncodable("reachable panic: arithmetic overflow in read_number")
        return res
    if c in ("core::num::<impl u8>::is_ascii_digit", "u8::is_ascii_digit"):
        v = d(args[0])
        if isinstance(v, int): return 0x30 <= v <= 0x39
        return And(UGE(v, 0x30), ULE(v, 0x39))
    if re.fullmatch(r"<u8 as TryFrom<usize>>::try_from", c):
        v = args[0]
        return core.Enum("Ok", [BitVecVal(v, 8)]) if isinstance(v, int) and v < 256 else core.Enum("Err", [("opaque", "tryfrom")])
    if re.fullmatch(r"(core::cmp::|std::cmp::)?(Ord::)?min::<usize>|usize::min|<usize as Ord>::min|core::cmp::impls::<impl Ord for usize>::min", c):
        return min(args[0], args[1])
    if re.search(r"::fail::<|Snafu::fail$|Snafu::<.*>::fail", c):
        return core.Enum("Err", [("opaque", c[:50])])
    if re.search(r"as ResultExt<.*>>::context::<", c):
        r = args[0]
        return r if r.variant == "Ok" else core.Enum("Err", [("opaque", "context")])
    if re.search(r"as OptionExt<.*>>::(with_)?context::<", c):
        o = args[0]
        return core.Enum("Ok", [o.f[0]]) if o.variant == "Some" else core.Enum("Err", [("opaque", "context")])
    return NotImplemented


def same(a, b, conds):
    """structural equality of two interpreter values; symbolic leaves contribute z3 equalities; False if the shapes differ"""
    a, b = d(a), d(b)
    if isinstance(a, core.Enum) or isinstance(b, core.Enum):
        if not (isinstance(a, core.Enum) and isinstance(b, core.Enum)): return False
        if a.variant != b.variant or len(a.f) != len(b.f): return False
        return all(same(x, y, conds) for x, y in zip(a.f, b.f))
    if isinstance(a, core.Struct) or isinstance(b, core.Struct):
        if not (isinstance(a, core.Struct) and isinstance(b, core.Struct)) or len(a.f) != len(b.f): return False
        return all(same(x, y, conds) for x, y in zip(a.f, b.f))
    if isinstance(a, bool) or isinstance(b, bool) or (is_expr(a) and is_bool(a)) or (is_expr(b) and is_bool(b)):
        conds.append(a == b); return True
    if isinstance(a, int) and isinstance(b, int): return a == b
    if isinstance(a, int): a = BitVecVal(a, b.size())
    if isinstance(b, int): b = BitVecVal(b, a.size())
    if a.size() != b.size(): return False
    conds.append(a == b); return True


def run(rep, tier, seed, known, part):
    pc_, _ = mirdump.dump("dicom-core")
    pch, _ = mirdump.dump("chrono")
    core.load([pc_, pch])
    for p in (pc_, pch): os.remove(p)
    core.EXTRA_CONTRACTS[:] = [contracts, fmtlib.contracts]
    core.ENUMS.update({"DicomDateImpl::Year": 0, "DicomDateImpl::Month": 1, "DicomDateImpl::Day": 2,
                       "DicomTimeImpl::Hour": 0, "DicomTimeImpl::Minute": 1, "DicomTimeImpl::Second": 2, "DicomTimeImpl::Fraction": 3})
    core.ENUMS.update({"DateComponent::" + n: k for k, n in enumerate(["Year", "Month", "Day", "Hour", "Minute", "Second", "Millisecond", "Fraction", "UtcWest", "UtcEast"])})
    rep.functions += ["dicom_core::value::partial::{DicomDate, DicomTime, DicomDateTime}::{from_*, to_encoded}", "dicom_core::value::deserialize::{parse_date_partial, parse_time_partial, parse_datetime_partial, read_number}",
                      "dicom_core::PrimitiveValue::{da_byte_len, tm_byte_len, dt_byte_len}", "chrono::FixedOffset::{east_opt, west_opt, fmt}", "core::fmt template interpreter (enginem/fmtlib.py)"]
    nat = native.Native()
    try:
        insts = [("Date", "from_y"), ("Date", "from_ym"), ("Date", "from_ymd"),
                 ("Time", "from_h"), ("Time", "from_hm"), ("Time", "from_hms"), ("Time", "from_hms_milli"), ("Time", "from_hms_micro"), ("Time", "from_hmsf")]
        for dfn in ("from_y", "from_ym", "from_ymd"):
            insts.append(("DateTime", "from_date/" + dfn)); insts.append(("DateTime", "from_date_with_time_zone/" + dfn))
        for tfn in ("from_h", "from_hm", "from_hms", "from_hmsf"):
            insts.append(("DateTime", "from_date_and_time/from_ymd/" + tfn)); insts.append(("DateTime", "from_date_and_time_with_time_zone/from_ymd/" + tfn))
        if tier != "quick":
            insts += [("DateTime", "from_date_and_time/from_ym/from_h"), ("DateTime", "from_date_and_time_with_time_zone/from_y/from_hms")]
        else:
            keep = {"from_ym", "from_ymd", "from_hm", "from_hms_milli", "from_hmsf", "from_date/from_ym", "from_date_with_time_zone/from_y", "from_date_with_time_zone/from_ymd",
                    "from_date_and_time/from_ymd/from_h", "from_date_and_time_with_time_zone/from_ymd/from_hm", "from_date_and_time_with_time_zone/from_ymd/from_hmsf"}
            insts = [i for i in insts if i[1] in keep]
        for kind, how in insts:
            one(rep, nat, kind, how)
    finally:
        nat.close()
        core.EXTRA_CONTRACTS[:] = []


def one(rep, nat, kind, how):
    box = {}
    parts = how.split("/")

    def mk_date(ctx, f):
        a = [BitVec("y", 16), BitVec("mo", 8), BitVec("d", 8)][:{"from_y": 1, "from_ym": 2, "from_ymd": 3}[f]]
        r = core.run_fn(fn(P + f + "$"), a, ctx)
        return r.f[0] if r.variant == "Ok" else None

    def mk_time(ctx, f):
        a = [BitVec("h", 8), BitVec("mi", 8), BitVec("s", 8), BitVec("f", 32), BitVec("fp", 8)]
        n = {"from_h": 1, "from_hm": 2, "from_hms": 3, "from_hms_milli": 4, "from_hms_micro": 4, "from_hmsf": 5}[f]
        r = core.run_fn(fn(P + f + "$"), a[:n], ctx)
        return r.f[0] if r.variant == "Ok" else None

    def mk_offset(ctx):
        # the offsets a DICOM date-time can carry: -12:00 .. +14:00, whole minutes (PS3.5 6.2 DT: &ZZXX)
        H, M, neg = BitVec("oh", 8), BitVec("om", 8), Bool("oneg")
        ctx.pc.extend([ULE(M, 59), If(neg, Or(ULE(H, 11), And(H == 12, M == 0)), Or(ULE(H, 13), And(H == 14, M == 0)))])
        mag = ZeroExt(24, H) * 3600 + ZeroExt(24, M) * 60
        secs = If(neg, -mag, mag)
        r = core.run_fn(fn(r"fixed::<impl at [^>]*>::east_opt$"), [secs], ctx)
        return r.f[0] if r.variant == "Some" else None

    def build(ctx):
        if kind == "Date":
            v = mk_date(ctx, parts[0]); enc, parse, blen = "968:1: 968:15>::to_encoded", "parse_date_partial", "da_byte_len"
        elif kind == "Time":
            v = mk_time(ctx, parts[0]); enc, parse, blen = "981:1: 981:15>::to_encoded", "parse_time_partial", "tm_byte_len"
        else:
            date = mk_date(ctx, parts[1])
            if date is None: return BoolVal(False)
            a = [date]
            if len(parts) > 2:
                t = mk_time(ctx, parts[2])
                if t is None: return BoolVal(False)
                a.append(t)
            if "time_zone" in parts[0]:
                off = mk_offset(ctx)
                if off is None: return BoolVal(False)
                a.append(off)
            r = core.run_fn(fn(P + parts[0] + "$"), a, ctx)
            v = r if not (isinstance(r, core.Enum) and r.variant in ("Ok", "Err")) else (r.f[0] if r.variant == "Ok" else None)
            enc, parse, blen = None, "parse_datetime_partial", "dt_byte_len"
        if v is None: return BoolVal(False)
        recv = {"Date": "_1: &DicomDate", "Time": "_1: &DicomTime", "DateTime": "_1: &DicomDateTime"}[kind]
        ENC = next(n for n in core.FNS if n.endswith("::to_encoded") and core.FNS[n].ptext.strip() == recv)
        text = core.run_fn(ENC, [core.Ref(core.Cell(v))], ctx)
        text = d(text)
        box["checked"] = box.get("checked", 0) + 1
        box["text_len"] = len(text.b)
        problems, conds = [], []
        # (1) the reported length
        bl = core.run_fn(fn(r"::%s$" % blen), [core.Ref(core.Cell(v))], ctx)
        if isinstance(bl, int):
            if bl != len(text.b): problems.append("value reports %d bytes, its text has %d" % (bl, len(text.b)))
        else:
            conds.append(bl != len(text.b))
        # (2) parse back
        r = core.run_fn(fn(r"deserialize::%s$|^%s$" % (parse, parse)), [core.Ref(core.Cell(core.Str(list(text.b))))], ctx)
        if r.variant != "Ok":
            problems.append("the encoded text does not parse back (%s returned an error)" % parse)
        else:
            back = d(r.f[0])
            if kind != "DateTime":
                rest = d(back.f[1]); back = back.f[0]
                rl = len(rest.b) if isinstance(rest, core.Str) else len(core.seq_store(rest)[0]) - core.seq_store(rest)[1]
                if rl: problems.append("%d characters of the encoded text are left unparsed" % rl)
            cs = []
            if not same(v, back, cs): problems.append("the parsed value has another shape (precision / presence of components) than the original")
            else: conds.append(Not(And(cs)) if cs else BoolVal(False))
        box["problems"] = problems
        ctx.bad = BoolVal(True) if problems else (Or(conds) if conds else BoolVal(False))
        return ctx.bad

    name = "%s built by %s: to_encoded parses back to the same value and has the reported length" % (kind, how)
    res = core.explore(build)
    rep.nontrivial += res["paths"]
    model = res["violation"][0] if res["violation"] else (res["witnesses"][-1][0] if res["witnesses"] else None)

    def g(nm, bits, dflt):
        if model is None: return dflt
        return model.eval(BitVec(nm, bits), model_completion=True).as_long()
    off = 3600 * g("oh", 8, 1) + 60 * g("om", 8, 0)
    if model is not None and is_true(model.eval(Bool("oneg"), model_completion=True)): off = -off
    word = ":".join(str(x) for x in (g("y", 16, 2000), g("mo", 8, 1), g("d", 8, 1), g("h", 8, 1), g("mi", 8, 1), g("s", 8, 1), g("f", 32, 1), g("fp", 8, 1), off))
    real = nat.ask("dt_roundtrip", kind, how, word)
    if res["violation"]:
        rp = rep.replay_file("c12rt_%s_%s" % (kind, how.replace("/", "_")), "// engine=M case=c12rt\n// native: dt_roundtrip %s %s %s   (y:mo:d:h:mi:s:f:fp:offset seconds)\n// encoding: %s\n// real: %s\n" % (kind, how, word, box.get("problems"), real))
        if real.startswith("DIFF"):
            rep.violations.append(("%s built by %s with %s: %s (real: %s)" % (kind, how, word, box.get("problems") or "parsed value differs", real), rp))
            rep.obligation(name, "violated", {"arguments": word, "native": real})
        else:
            rep.inconclusive.append("C12 round-trip counterexample does not reproduce natively: %s %s %s -> %s" % (kind, how, word, real))
            rep.obligation(name, "inconclusive", {"arguments": word, "native": real})
    else:
        rep.validated += 1
        if real.startswith("DIFF"):
            rep.inconclusive.append("native round trip of a holding instance differs: %s %s %s -> %s" % (kind, how, word, real))
        if not box.get("checked"):
            rep.inconclusive.append("vacuous: no path of '%s' reached the check" % name[:70])
        rep.obligation(name, "holds", {"paths": res["paths"], "paths_reaching_the_check": box.get("checked", 0)})
