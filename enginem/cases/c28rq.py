"""C28 (whole request) — ServerAssociationOptions::process_a_association_rq answers an A-ASSOCIATE-RQ by the rules: another protocol version,
another application context name or a refusal by access control give an A-ASSOCIATE-RJ with the matching reason; otherwise the
A-ASSOCIATE-AC carries one result per proposed context with the same identifier, in order, and the requestor's maximum PDU length is taken
from its request (0 = the largest supported, absent = the default, never more than the largest supported).
Encoded (container mode): MIR of process_a_association_rq with its closures (+ choose_ts, choose_supported, trim_uid as in the c28 case).
Protocol version, the Max Length value, the number and kinds of user items, the number of proposed contexts and their identifiers are
symbolic / solver-chosen; access control and the negotiation callbacks are contracts that may answer either way."""
import os, re
from z3 import *
import core, mirdump, native
from cases import c28

d = core._d
S, text, pick = c28.S, c28.text, c28.pick
APP = "1.2.840.10008.3.1.1.1"
RJ_REASONS = ["NoReasonGiven", "ApplicationContextNameNotSupported", "CallingAETitleNotRecognized", "CalledAETitleNotRecognized", "Reserved"]
UV = ["Unknown", "MaxLength", "ImplementationClassUID", "ImplementationVersionName", "SopClassExtendedNegotiationSubItem", "ScuScpRoleSelectionSubItem", "UserIdentityItem"]
PDUS = ["Unknown", "AssociationRQ", "AssociationAC", "AssociationRJ", "PData", "ReleaseRQ", "ReleaseRP", "AbortRQ"]


def deep(x):
    x = d(x)
    if isinstance(x, core.Str):
        r = core.Str(list(x.b))
        if hasattr(x, "cow"): r.cow = x.cow
        return r
    if isinstance(x, core.Enum):
        r = core.Enum(x.variant, [deep(y) for y in x.f])
        if hasattr(x, "idx"): r.idx = x.idx
        return r
    if isinstance(x, core.VecV): return core.VecV([deep(y) for y in x.items])
    if isinstance(x, core.Struct): return core.Struct([deep(y) for y in x.f])
    return x


def contracts(c, args, ctx):
    if c == "<A as AccessControl>::check_access":
        if ctx.branch(Bool("access_granted")): return core.Enum("Ok", [None])
        k = pick(ctx, "refusal", 3) + 1          # any of the three specific reasons
        e = core.Enum(RJ_REASONS[k], []); e.idx = k
        return core.Enum("Err", [e])
    if c in ("<N as Negotiation>::negotiate_roles", "<N as Negotiation>::extended_negotiation"):
        return core.Enum("None", [])
    if re.fullmatch(r"<.* as Clone>::clone", c): return deep(args[0])
    if re.fullmatch(r"<(std::string::)?String as PartialEq<Cow<'_, str>>>::(ne|eq)", c):
        same = text(args[0]) == text(args[1])
        return (not same) if c.endswith("::ne") else same
    if re.fullmatch(r"<u32 as Ord>::min", c):
        a, b = args
        a = BitVecVal(a, 32) if isinstance(a, int) else a; b = BitVecVal(b, 32) if isinstance(b, int) else b
        return If(ULE(a, b), a, b)
    if re.search(r"Snafu(::<.*>)?::build$", c): return ("opaque", c[:40])
    if re.fullmatch(r"<Vec<.*> as IntoIterator>::into_iter", c): return core.SliceIter(list(d(args[0]).items))
    if re.fullmatch(r"<std::vec::IntoIter<.*> as Iterator>::next|<std::slice::Iter<'_, .*> as Iterator>::next", c):
        return core.opt(d(args[0]).next())
    if re.search(r"as Iterator>::collect::<Vec<", c):
        out = []
        while True:
            x = core.iter_next(args[0], ctx)
            if x is None: return core.VecV(out)
            out.append(x)
    if re.fullmatch(r"<Vec<.*> as Deref>::deref", c): return d(args[0])
    if re.fullmatch(r"<(std::string::)?String as Deref>::deref", c): return d(args[0])
    return c28.contracts(c, args, ctx)


def run(rep, tier, seed, known, part):
    pu, _ = mirdump.dump("dicom-ul")
    core.load([pu])
    os.remove(pu)
    core.EXTRA_CONTRACTS[:] = [contracts]
    core.ENUMS.update({"PresentationContextResultReason::" + n: k for k, n in enumerate(c28.REASONS)})
    core.ENUMS.update({"AssociationRJServiceUserReason::" + n: k for k, n in enumerate(RJ_REASONS)})
    core.ENUMS.update({"AssociationRJResult::Permanent": 0, "AssociationRJResult::Transient": 1})
    core.ENUMS.update({"AssociationRJSource::ServiceUser": 0, "AssociationRJSource::ServiceProviderASCE": 1, "AssociationRJSource::ServiceProviderPresentation": 2})
    core.ENUMS.update({"UserVariableItem::" + n: k for k, n in enumerate(UV)})
    core.ENUMS.update({"Pdu::" + n: k for k, n in enumerate(PDUS)})
    F = next(n for n in core.FNS if n.endswith("::process_a_association_rq"))
    consts = {k.split("::")[-1]: v for k, v in core.SIMPLE_CONSTS.items()}
    rep.functions += ["dicom_ul::association::server::ServerAssociationOptions::process_a_association_rq (+ closures)", "choose_ts / choose_supported / trim_uid (+ closures)"]
    MAXIMUM, DEFAULT = ((1 << 32) - 1 & ~1) - 6, 32768 - 6
    nat = native.Native()
    box = {}

    def uv(name, fields):
        e = core.Enum(name, fields); e.idx = UV.index(name); return e

    def build(ctx):
        pv = BitVec("protocol_version", 16)
        app_ok = ctx.branch(Bool("app_context_ok"))
        n_uv = pick(ctx, "n_uv", 3)
        items, maxlens = [], []
        for k in range(n_uv):
            kind = pick(ctx, "uv%d" % k, 3)
            if kind == 0:
                ml = BitVec("maxlen%d" % k, 32); maxlens.append(ml); items.append(uv("MaxLength", [ml]))
            elif kind == 1: items.append(uv("ImplementationVersionName", [S("V")]))
            else: items.append(uv("ScuScpRoleSelectionSubItem", [S("1.2.3"), core.Struct([True, False])]))
        n_pc = pick(ctx, "n_pc", 3)
        ids = [BitVec("pcid%d" % k, 8) for k in range(n_pc)]
        pcs = [core.Struct([ids[k], S(c28.AS[k % 2]), core.VecV([S(c28.T_EXPL if k == 0 else c28.T_UNK)])]) for k in range(n_pc)]
        rq = core.Struct([pv, S("SCU"), S("THIS-SCP"), S(APP if app_ok else "1.2.3.9"), core.VecV(pcs), core.VecV(items)])
        msg = core.Enum("AssociationRQ", [rq]); msg.idx = 1
        opts = core.Struct([core.Struct([]), S("THIS-SCP"), S(APP), core.VecV([S(c28.AS[0])]), core.VecV([]), BitVecVal(1, 16), BitVecVal(16378, 32), True, False, core.Struct([]), core.Struct([])])
        r = core.run_fn(F, [core.Ref(core.Cell(opts)), msg], ctx)
        box["inst"] = {"n_pc": n_pc, "n_uv": n_uv, "app_ok": app_ok}
        problems, conds = [], []
        if r.variant == "Err":
            pdu = d(d(r.f[0]).f[0])
            if pdu.variant != "AssociationRJ": problems.append("an error answer that is not an A-ASSOCIATE-RJ (%s)" % pdu.variant)
            else:
                rj = d(pdu.f[0]); src = d(rj.f[1])
                reason = d(src.f[0]).variant if src.variant == "ServiceUser" else src.variant
                box["got"] = ("RJ", reason)
                # which rejection do the rules give?  (checked in this order)
                want_pv = ctx.branch(pv != 1)
                if want_pv: want = "NoReasonGiven"
                elif not app_ok: want = "ApplicationContextNameNotSupported"
                else:
                    granted = ctx.branch(Bool("access_granted"))
                    want = None if granted else RJ_REASONS[pick(ctx, "refusal", 3) + 1]
                if want is None: problems.append("rejected (%s) although version, application context and access control are fine" % reason)
                elif reason != want: problems.append("rejection reason %s, the rules give %s" % (reason, want))
                if d(rj.f[0]).variant != "Permanent": problems.append("rejection is not permanent")
        else:
            tup = d(r.f[0]); pdu = d(tup.f[0]); nego = d(tup.f[1])
            box["got"] = ("AC",)
            if ctx.branch(pv != 1): problems.append("accepted although the protocol version differs")
            if not app_ok: problems.append("accepted although the application context name differs")
            if not ctx.branch(Bool("access_granted")): problems.append("accepted although access control refused")
            if pdu.variant != "AssociationAC": problems.append("the answer is not an A-ASSOCIATE-AC")
            else:
                ac = d(pdu.f[0]); res = d(ac.f[4]).items
                if len(res) != n_pc: problems.append("%d results for %d proposed contexts" % (len(res), n_pc))
                else:
                    for k in range(n_pc): conds.append(d(res[k]).f[0] != ids[k])
                neg_pcs = d(nego.f[2]).items
                if len(neg_pcs) != n_pc: problems.append("%d negotiated contexts for %d proposed ones" % (len(neg_pcs), n_pc))
            peer_max = nego.f[0]
            if maxlens:
                ml = maxlens[-1]
                want_max = If(ml == 0, BitVecVal(MAXIMUM, 32), If(ULE(ml, BitVecVal(MAXIMUM, 32)), ml, BitVecVal(MAXIMUM, 32)))
            else:
                want_max = BitVecVal(DEFAULT, 32)
            pm = BitVecVal(peer_max, 32) if isinstance(peer_max, int) else peer_max
            conds.append(pm != want_max)
        box["problems"] = problems
        ctx.bad = BoolVal(True) if problems else (Or(conds) if conds else BoolVal(False))
        return ctx.bad

    try:
        res = core.explore(build, max_paths=60000)
        rep.nontrivial += res["paths"]
        name = ("A-ASSOCIATE-RQ with symbolic protocol version, right/wrong application context, 0..2 user items (Max Length with any value / version name / role selection), 0..2 proposed contexts with symbolic identifiers, "
                "access control granting or refusing with any reason: RJ reason by the rules, one result per context with the same identifier in order, requestor maximum PDU length by the rules")
        if res["violation"]:
            model = res["violation"][0]
            g = lambda nm, bits, dflt=0: model.eval(BitVec(nm, bits), model_completion=True).as_long()
            inst = box["inst"]
            pvv = g("protocol_version", 16)
            kinds = [g("uv%d" % k, 8) for k in range(inst["n_uv"])]
            mls = [str(g("maxlen%d" % k, 32)) if kinds[k] == 0 else ("V" if kinds[k] == 1 else "R") for k in range(inst["n_uv"])]
            idsv = [str(g("pcid%d" % k, 8)) for k in range(inst["n_pc"])]
            granted = is_true(model.eval(Bool("access_granted"), model_completion=True))
            words = ["negotiate_rq", pvv, int(inst["app_ok"]), ",".join(mls) or "-", ",".join(idsv) or "-", int(granted)]
            real = nat.ask(*words)
            rp = rep.replay_file("c28_request", "// engine=M case=c28rq\n// native: %s   (protocol version, application context ok, user items (number = Max Length, V = version name, R = role selection), context ids, access granted)\n// encoding: %s got %s\n// real acceptor over loopback: %s\n" % (" ".join(map(str, words)), box.get("problems"), box.get("got"), real))
            # the native side recomputes the expectation from the rules itself and answers MATCH / MISMATCH
            if real.startswith("MISMATCH"):
                rep.violations.append(("acceptor answer to a whole request: %s; request %s; real acceptor: %s" % (box.get("problems") or "identifier / maximum PDU length differs", words[1:], real), rp))
                rep.obligation(name, "violated", {"native": real, "instance": words})
            else:
                rep.inconclusive.append("C28 whole-request counterexample does not reproduce natively: %s -> %s" % (words, real))
                rep.obligation(name, "inconclusive", {"native": real})
        else:
            rep.validated += 1
            for w in (["negotiate_rq", 1, 1, "0", "5,9", 1], ["negotiate_rq", 2, 1, "-", "1", 1], ["negotiate_rq", 1, 0, "4096,V", "1", 1], ["negotiate_rq", 1, 1, "R,70000", "-", 0]):
                real = nat.ask(*w)
                if not real.startswith("MATCH"): rep.inconclusive.append("native acceptor disagrees with the rules on %s: %s" % (w, real))
            rep.obligation(name, "holds", {"paths": res["paths"]})
    finally:
        nat.close()
        core.EXTRA_CONTRACTS[:] = []
