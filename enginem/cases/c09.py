"""C09 (group length clause) — the File Meta Information Group Length that a FileMetaTable records equals the number of bytes of the
encoded group that follow the group length element.
Encoded (container mode), two phases because dicom-object and dicom-parser both define helper functions of the same name:
 (1) MIR of dicom_object::meta::FileMetaTable::{update_information_group_length, calculate_information_group_length, into_element_iter}
     and dicom_len on a table of concrete shape (which optional attributes are present, length of every string) with symbolic characters;
 (2) every element that into_element_iter produced is written by the MIR of StatefulEncoder::encode_primitive_element over the Explicit
     VR Little Endian encoder (the machinery of the C04 case), the bytes are walked by C04's PS3.5 walker and counted."""
import os, re
from z3 import *
import core, mirdump, native
from cases import c04

d = core._d
OPT = ["implementation_version_name", "source_application_entity_title", "sending_application_entity_title", "receiving_application_entity_title",
       "private_information_creator_uid", "private_information"]


class Elem(core.Struct):
    """what DataElement::new was called with: tag, vr, value"""
    pass


def contracts_obj(c, args, ctx):
    if re.match(r"DataElement::<.*>::new::<", c) or re.match(r"dicom_core::DataElement::<.*>::new::<", c):
        v = d(args[2])
        if isinstance(v, core.Enum) and v.variant == "Primitive": v = v.f[0]
        return Elem([d(args[0]), args[1], v])
    if re.fullmatch(r"<(std::string::)?String as Clone>::clone|<Vec<u8> as Clone>::clone", c):
        v = d(args[0]); return c04.Sink(list(v.b)) if isinstance(v, c04.Sink) else core.Str(list(v.b))
    if re.fullmatch(r"<Option<(std::string::)?String> as Clone>::clone|<Option<Vec<u8>> as Clone>::clone", c):
        o = d(args[0])
        return core.Enum(o.variant, [core.Str(list(d(x).b)) if not isinstance(d(x), c04.Sink) else c04.Sink(list(d(x).b)) for x in o.f])
    if re.fullmatch(r"<\[u8; 2\] as Clone>::clone", c):
        return core.Struct(list(d(args[0]).f))
    if re.fullmatch(r"<FileMetaTable as Clone>::clone", c):
        t = d(args[0])
        def cp(x):
            x = d(x)
            if isinstance(x, c04.Sink): return c04.Sink(list(x.b))
            if isinstance(x, core.Str): return core.Str(list(x.b))
            if isinstance(x, core.Enum): return core.Enum(x.variant, [cp(y) for y in x.f])
            if isinstance(x, core.Struct): return core.Struct([cp(y) for y in x.f])
            return x
        return cp(t)
    if re.fullmatch(r"(std::string::)?String::len|core::str::<impl str>::len|Vec::<u8>::len", c):
        return len(d(args[0]).b)
    if re.fullmatch(r"<T as AsRef<str>>::as_ref|<&(std::string::)?String as AsRef<str>>::as_ref|<(std::string::)?String as AsRef<str>>::as_ref", c):
        return d(args[0])
    if re.fullmatch(r"<(std::string::)?String as Into<dicom_core::PrimitiveValue>>::into", c): return core.Enum("Str", [d(args[0])])
    if re.fullmatch(r"<u32 as Into<dicom_core::PrimitiveValue>>::into", c): return core.Enum("U32", [core.VecV([args[0]])])
    if re.fullmatch(r"<Vec<u8> as Into<dicom_core::PrimitiveValue>>::into", c): return core.Enum("U8", [core.VecV(list(d(args[0]).b))])
    if re.fullmatch(r"<Vec<u8> as Into<SmallVec<\[u8; \d+\]>>>::into|<SmallVec<\[u8; \d+\]> as From<Vec<u8>>>::from", c):
        v = d(args[0]); return core.VecV(list(v.b if isinstance(v, core.Str) else v.items))
    if re.fullmatch(r"<dicom_core::PrimitiveValue as From<(std::string::)?String>>::from", c):
        return core.Enum("Str", [d(args[0])])
    if re.fullmatch(r"<dicom_core::PrimitiveValue as From<u32>>::from", c):
        return core.Enum("U32", [core.VecV([args[0]])])
    if re.fullmatch(r"<dicom_core::PrimitiveValue as From<Vec<u8>>>::from", c):
        return core.Enum("U8", [core.VecV(list(d(args[0]).b))])
    m = re.fullmatch(r"(smallvec::)?SmallVec::<\[u8; \d+\]>::from_(buf|slice|vec)(::<.*>)?", c)
    if m:
        v = d(args[0]); xs = v.f if isinstance(v, core.Struct) else (v.b if isinstance(v, core.Str) else v.items)
        return core.VecV(list(xs))
    if re.fullmatch(r"dicom_core::value::Value::<.*>::Primitive|Value::<.*>::Primitive", c):
        return args[0]
    if re.search(r"::into_vec$|slice::<impl \[.*\]>::into_vec", c):
        v = d(args[0]); return core.VecV(list(v.f if isinstance(v, core.Struct) else v.items))
    if re.fullmatch(r"<Vec<.*> as IntoIterator>::into_iter", c):
        return core.SliceIter(list(d(args[0]).items))
    if re.search(r"alloc::boxed::box_new::<|Box::<.*>::new$", c):
        return args[0]
    return NotImplemented


def run(rep, tier, seed, known, part):
    rep.functions += ["dicom_object::meta::FileMetaTable::{update_information_group_length, calculate_information_group_length, into_element_iter}", "dicom_object::meta::dicom_len",
                      "dicom_parser::stateful::encode::StatefulEncoder::encode_primitive_element (+ text / header encoders, as in C04)"]
    nat = native.Native()
    # instances: which optional attributes are present (bit k = OPT[k]) and a length pattern for the 4 + 6 fields
    A = (1, 3, 1, 3, 5, 1, 3, 1, 3, 1)      # every length odd: each field needs its padding byte counted
    B = (2, 2, 4, 2, 2, 4, 2, 2, 2, 2)      # every length even
    C = (3, 2, 1, 4, 5, 1, 2, 3, 1, 3)
    D = (0, 0, 2, 2, 0, 0, 0, 0, 0, 0)      # empty strings
    if tier == "quick":
        insts = [(0, A), (0, B), (0b111111, A), (0b111111, B), (0b000001, A), (0b100000, A), (0b010110, C), (0b101001, [C, D][seed % 2])]
    else:
        insts = [(m, p_) for m in range(64) for p_ in (A, B, C, D)]
    paths = {k: mirdump.dump(k)[0] for k in ("dicom-object", "dicom-core", "dicom-parser", "dicom-encoding")}
    try:
        for mask, pat in insts:
            one(rep, nat, mask, pat, paths)
    finally:
        nat.close()
        core.EXTRA_CONTRACTS[:] = []
        for p in paths.values():
            try: os.remove(p)
            except OSError: pass


def one(rep, nat, mask, pat, paths):
    name = "file meta table with optional attributes %s, field lengths %s: recorded group length == bytes that follow the group length element" % (
        [OPT[k] for k in range(6) if mask >> k & 1] or "none", list(pat))
    # ---- phase 1: dicom-object
    core.load([paths["dicom-object"], paths["dicom-core"]])
    core.EXTRA_CONTRACTS[:] = [contracts_obj]
    core.ENUMS.update({"PrimitiveValue::" + k: core.DISC[k] for k in ("Empty", "Strs", "Str", "Tags", "U8", "I16", "U16", "I32", "U32", "I64", "U64", "F32", "F64", "Date", "DateTime", "Time")})
    UPD = next(n for n in core.FNS if n.endswith("::update_information_group_length"))
    ITER = next(n for n in core.FNS if n.endswith("::into_element_iter") and "FileMetaTable" in core.FNS[n].ptext)
    box = {}

    counter = {"k": 0}

    def text(prefix, n, pc):
        counter["k"] += 1
        blank_ok = (counter["k"] + mask + sum(pat)) % 3 == 0          # every third string of the instance may end in a pad character
        bs = [BitVec("%s_%d" % (prefix, k), 8) for k in range(n)]
        # the last character may be any character of the default repertoire, NUL and space (the pad characters) included; the others are
        # non-blank (and only every third string gets such a last character: a few blank-or-not forks instead of 2^9 if the code starts to trim values)
        for b in bs[:-1]: pc.append(And(UGE(b, 0x30), ULE(b, 0x7A)))
        for b in bs[-1:]: pc.append(ULE(b, 0x7E) if blank_ok else And(UGE(b, 0x30), ULE(b, 0x7A)))
        return core.Str(bs)

    def build1(ctx):
        pc = ctx.pc
        counter["k"] = 0
        fields = [BitVec("stale_len", 32), core.Struct([0, 1])]
        for k, nm in enumerate(("class", "inst", "ts", "impl")):
            fields.append(text(nm, pat[k], pc))
        for k in range(5):
            fields.append(core.Enum("Some", [text("opt%d" % k, pat[4 + k], pc)]) if mask >> k & 1 else core.Enum("None", []))
        fields.append(core.Enum("Some", [c04.Sink([BitVec("priv_%d" % j, 8) for j in range(pat[9])])]) if mask >> 5 & 1 else core.Enum("None", []))
        table = core.Struct(fields)
        ref = core.Ref(core.Cell(table))
        core.run_fn(UPD, [ref], ctx)
        box["recorded"] = table.f[0]
        it = core.run_fn(ITER, [table], ctx)
        elems = []
        while True:
            x = core.iter_next(it, ctx)
            if x is None: break
            elems.append(d(x))
        box.setdefault("paths", []).append((table.f[0], elems, list(ctx.pc)))
        return BoolVal(False)

    res1 = core.explore(build1)
    # ---- phase 2: dicom-parser + dicom-encoding, once per path of phase 1 (a single path unless the code branches on characters)
    core.load([paths["dicom-parser"], paths["dicom-encoding"], paths["dicom-core"]])
    c04.IMPL.clear(); c04.find_impls()
    c04.ENC["kind"] = "ele"
    core.EXTRA_CONTRACTS[:] = [c04.contracts]
    EPE = next(n for n in core.FNS if n.endswith("::encode_primitive_element"))
    box2 = {}
    res2, rec, elems = None, None, []
    for (rec_, elems_, pc1) in box.get("paths", []):
        rec_ = simplify(rec_) if not isinstance(rec_, int) else rec_
        if not isinstance(rec_, int):
            if not is_bv_value(rec_): raise core.NotEncodable("recorded group length is not determined by the shape of the table")
            rec_ = rec_.as_long()
        rec, elems = rec_, elems_
        r2 = explore2(EPE, rec, elems, pc1, box2)
        rep.nontrivial += r2["paths"]
        res2 = r2
        if r2["violation"]: break
    rep.nontrivial += res1["paths"]
    finish(rep, nat, name, mask, pat, res2, box2, rec, elems)


def explore2(EPE, rec, elems, pc1, box2):
    def build2(ctx):
        ctx.pc.extend(pc1)
        sink = c04.Sink([])
        printer = core.Struct([sink, core.Struct([]), core.Enum("Default", []), BitVecVal(0, 64), c04.Sink([])])
        for el in elems:
            tag, vr, val = el.f
            vrn = vr.variant
            de = c04.header(tag.f[0], tag.f[1], vrn, BitVecVal(0, 32))
            r = core.run_fn(EPE, [core.Ref(core.Cell(printer)), core.Ref(core.Cell(de)), core.Ref(core.Cell(val))], ctx)
            if r.variant != "Ok":
                box2["problems"] = ["encode_primitive_element failed for %s" % vrn]; return BoolVal(True)
        b = [c04.norm(x) for x in sink.b]
        box2["bytes"] = b
        problems = c04.Walk(b, "ele").run()
        if len(b) < 12 or b[:8] != [2, 0, 0, 0, 0x55, 0x4C, 4, 0]:
            problems.append("the group does not start with the group length element (0002,0000) UL 4")
        else:
            stored = b[8:12]
            if not all(isinstance(x, int) for x in stored): problems.append("group length bytes are symbolic")
            else:
                stored = int.from_bytes(bytes(stored), "little")
                if stored != rec: problems.append("written group length %d differs from the recorded %d" % (stored, rec))
                if stored != len(b) - 12: problems.append("group length %d, but %d bytes follow the group length element" % (stored, len(b) - 12))
        box2["problems"] = problems
        return BoolVal(bool(problems))
    return core.explore(build2)


def finish(rep, nat, name, mask, pat, res2, box2, rec, elems):
    model = res2["violation"][0] if res2 and res2["violation"] else None

    def field_hex(prefix, n):
        if n == 0: return "-"
        out = []
        for k in range(n):
            v = 0x41 + k if model is None else model.eval(BitVec("%s_%d" % (prefix, k), 8), model_completion=True).as_long()
            out.append("%02x" % v)
        return "".join(out)
    words = [field_hex(nm, pat[k]) for k, nm in enumerate(("class", "inst", "ts", "impl"))] + [field_hex("opt%d" % k, pat[4 + k]) for k in range(5)] + [str(pat[9])]
    real = nat.ask("meta_len", mask, *words)
    parts = real.split()
    real_bad = not (len(parts) == 3 and parts[0] == "L" and parts[1] == parts[2])
    if res2 and res2["violation"]:
        rp = rep.replay_file("c09_%d_%s" % (mask, "_".join(map(str, pat))), "// engine=M case=c09\n// native: meta_len %d %s   (presence mask, text of each string field in hex, private information length)\n// encoding: %s\n// real (recorded, bytes that follow): %s\n" % (mask, " ".join(words), box2.get("problems"), real))
        if real_bad:
            rep.violations.append(("file meta group length: %s (real: %s) for optional attributes mask %d, field texts (hex) %s" % (box2.get("problems"), real, mask, words), rp))
            rep.obligation(name, "violated", {"native": real})
        else:
            rep.inconclusive.append("C09 counterexample does not reproduce natively: %s vs %s" % (box2.get("problems"), real))
            rep.obligation(name, "inconclusive", {"native": real})
    else:
        rep.validated += 1
        if real_bad or rec is None or int(parts[1]) != rec:
            rep.inconclusive.append("native file meta group (%s) disagrees with the encoding (recorded %s) for mask %d lengths %s" % (real, rec, mask, list(pat)))
        rep.obligation(name, "holds", {"recorded": rec, "elements": len(elems)})
