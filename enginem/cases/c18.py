"""C18 (arithmetic half) — Fragments::new never drops data: fragment-count arithmetic for all fragment sizes on stated ranges of data lengths.
Encoded (scalar mode): MIR of dicom_core::value::fragments::Fragments::new up to the chunking call."""
import os
from z3 import *
import mirdump, native, scalar


class R:
    def __init__(self, v):
        self.v = v

    def get(self):
        return self.v


def run(rep, tier, seed, known, part):
    path, _ = mirdump.dump("dicom-core")
    text = open(path).read()
    os.remove(path)
    rec = {}

    def deref(a):
        while hasattr(a, "get") and not isinstance(a, dict):
            a = a.get()
        return a
    contracts = {
        r"^Vec::<u8>::len$": lambda M, a, pc: deref(a[0])["len"],
        r"^Vec::<Vec<u8>>::new$": lambda M, a, pc: {"len": BitVecVal(0, 64)},
        r"<impl f32>::ceil$": lambda M, a, pc: fpRoundToIntegral(RTP(), a[0]),
        r"^Vec::<u8>::resize$": lambda M, a, pc: (deref(a[0]).__setitem__("len", a[1]), None)[1],
        r"<Vec<u8> as Deref>::deref$": lambda M, a, pc: deref(a[0]),
        r"<impl \[u8\]>::chunks_exact$": lambda M, a, pc: (rec.setdefault("chunks", []).append((pc, deref(a[0])["len"], a[1])), ("chunks",))[1],
        r"as Iterator>::map::<": lambda M, a, pc: a[0],
        r"as Iterator>::collect::<": lambda M, a, pc: a[0],
    }
    M = scalar.Machine(text, contracts)
    NEW = next(n for n, f in M.fns.items() if n.endswith("::new") and "fragments" in n and f.ptext.startswith("_1: Vec<u8>, _2: u32"))
    rep.functions += ["dicom_core::value::fragments::Fragments::new (fragment size normalisation, fragment count, padding, chunking arguments)"]
    L = BitVec("L", 64)
    fs = BitVec("fs", 32)
    M.call(NEW, [{"len": L}, fs])
    nat = native.Native()
    bound = 1 << 26
    dom = And(ULE(L, BitVecVal(bound, 64)))
    # every path that reaches chunks_exact: chunk size non-zero and the (possibly padded) length is a whole number of chunks >= L
    bad = []
    for pc, length, n in rec.get("chunks", []):
        bad.append(And(pc, Or(n == 0, URem(length, n) != 0, ULT(length, L))))
    panics = [p for p, msg in M.panics if not is_false(p)]
    import time
    MAXFS = BitVecVal(0xFFFFFFFF, 32)
    other = And(fs != MAXFS, Not(And(L == 0, fs == 0)))
    B = lambda v: BitVecVal(v, 64)
    # the full domain L <= 2^26 is beyond z3's bit-blasting of 64-bit division (unknown after 120 s, also with a division lemma);
    # the claim is therefore stated on sub-domains that z3 decides in seconds (measured: 21 s / 12 s); a window at 2^26 already came back unknown
    regions = [
        ("largest fragment size (u32::MAX), data length <= 2^16", And(fs == MAXFS, ULE(L, B(1 << 16))), "c18_fragments_new_fs_max"),
        ("empty data with fragment size 0", And(L == 0, fs == 0), "c18_fragments_new_empty"),
        ("data lengths <= 2^16, every other fragment size", And(other, ULE(L, B(1 << 16))), "c18_fragments_new"),
        ("data lengths within [2^24 - 8, 2^24 + 24] (where f32 stops being exact), every other fragment size", And(other, UGE(L, B((1 << 24) - 8)), ULE(L, B((1 << 24) + 24))), "c18_fragments_new"),
    ]
    for label, region, role in regions:
        s = Solver()
        s.set("timeout", 600000)
        s.add(dom, region, Or(bad + panics))
        t0 = time.time()
        r = s.check()
        rep.evaluations += 1
        name = "Fragments::new drops no byte of the data and does not panic: " + label
        if r == unsat:
            rep.nontrivial += 1
            rep.obligation(name, "holds", {"solver_s": round(time.time() - t0, 1), "paths_to_chunking": len(bad), "overflow_assertions": len(M.panics)})
        elif r == sat:
            m = s.model()
            lv, fv = m.eval(L, model_completion=True).as_long(), m.eval(fs, model_completion=True).as_long()
            real = nat.ask("frag_new", lv, fv)
            rp = rep.replay_file(role, "// engine=M case=c18\n// native: frag_new %d %d\n// real answer (fragments, total bytes | PANIC): %s\n" % (lv, fv, real))
            okn = real == "PANIC" or int(real.split()[1]) < lv
            what = "Fragments::new(%d bytes, fragment_size %d) -> %s (data length %d)" % (lv, fv, real, lv)
            if okn and role in known:
                rep.known_hits.append((role, known[role]))
                rep.obligation(name, "known-finding", {"input": [lv, fv], "native": real})
            elif okn:
                rep.violations.append((what, rp))
                rep.obligation(name, "violated", {"input": [lv, fv], "native": real})
            else:
                rep.inconclusive.append("C18 model (%d, %d) does not reproduce natively: %s" % (lv, fv, real))
                rep.obligation(name, "inconclusive", {"input": [lv, fv], "native": real})
        else:
            rep.inconclusive.append("solver answered %s on the Fragments::new arithmetic (%s)" % (r, label))
            rep.obligation(name, "inconclusive", {})
    # translator validation on concrete points (incl. the repo's own test vectors)
    for (lv, fv) in [(3, 0), (6, 4), (5, 2), (1000, 300), (16777216, 16777216), (1 << 20, 7)]:
        real = nat.ask("frag_new", lv, fv).split()
        rep.validated += 1
        s2 = Solver()
        s2.add(L == lv, fs == fv)
        exp = None
        for pc, length, n in rec.get("chunks", []):
            s2.push(); s2.add(pc)
            if s2.check() == sat:
                mm = s2.model(); exp = (mm.eval(length, model_completion=True).as_long(), mm.eval(n, model_completion=True).as_long())
            s2.pop()
        if exp and real[0] != "PANIC" and (int(real[1]) != (exp[0] // exp[1]) * exp[1] or int(real[0]) != exp[0] // exp[1]):
            rep.inconclusive.append("encoding disagrees with native Fragments::new(%d,%d): %s vs %s" % (lv, fv, exp, real))
    run_bot(rep, tier, seed, known, nat.ask)
    nat.close()


def run_bot(rep, tier, seed, known, nat_ask):
    """From<Vec<Fragments>> for PixelFragmentSequence: basic offset table for frames with SYMBOLIC fragment lengths (container mode)."""
    import core
    path, _ = mirdump.dump("dicom-core")
    core.load([path])
    os.remove(path)
    FROM = next(n for n, f in core.FNS.items() if n.endswith("::from") and "fragments" in n and f.ptext.startswith("_1: Vec<Fragments>"))
    rep.functions += ["<PixelFragmentSequence<Vec<u8>> as From<Vec<Fragments>>>::from", "Fragments::len (+closure)", "Fragments::is_multiframe"]
    for nframes in ((2, 3, 4, 5) if tier == "quick" else (1, 2, 3, 4, 5, 6, 7)):
        lens = [BitVec("len%d" % k, 64) for k in range(nframes)]

        def build(ctx, lens=lens, nframes=nframes):
            for l in lens:
                ctx.pc.append(ULE(l, BitVecVal(1 << 20, 64)))          # fragment lengths up to 1 MiB (no u32 overflow of the running offset)
            frames = core.VecV([core.Struct([core.VecV([core.AbstractBytes(l)])]) for l in lens])
            r = core.run_fn(FROM, [frames], ctx)
            bot = r.f[0].items
            ctx.bot = bot
            if len(bot) != nframes or len(r.f[1].items) != nframes:
                return BoolVal(True)
            bad = []
            expect = BitVecVal(0, 32)
            for k in range(nframes):
                got = bot[k] if not isinstance(bot[k], int) else BitVecVal(bot[k], 32)
                bad.append(got != expect)
                expect = expect + Extract(31, 0, lens[k]) + 8
            return Or(bad)
        res = core.explore(build)
        rep.nontrivial += res["paths"]
        name = "From<Vec<Fragments>>: offset table of %d single-fragment frames == cumulative (length + 8), all fragment lengths <= 2^20" % nframes
        if res["violation"]:
            model = res["violation"][0]
            lv = [model.eval(l, model_completion=True).as_long() for l in lens]
            lv = [max(2, min(x, 4096) & ~1) for x in lv]          # replay with non-empty even lengths (Fragments::new pads odd data) of moderate size
            real = nat_ask("bot", *lv)
            want = []
            acc = 0
            for x in lv:
                want.append(acc)
                acc += x + 8
            rp = rep.replay_file("c18_bot_%d" % nframes, "// engine=M case=c18\n// native: bot %s\n// real offset table: %s, expected %s\n" % (" ".join(map(str, lv)), real, want))
            if real != " ".join(map(str, want)):
                rep.violations.append(("offset table for frames of %s bytes is [%s], expected %s" % (lv, real, want), rp))
                rep.obligation(name, "violated", {"frames": lv, "native": real})
            else:
                rep.inconclusive.append("C18 offset-table counterexample %s does not reproduce natively" % lv)
                rep.obligation(name, "inconclusive", {"frames": lv})
        else:
            if res["witnesses"]:
                model = res["witnesses"][0][0]
                lv = [2 + ((model.eval(l, model_completion=True).as_long() % 64) & ~1) for l in lens]      # non-empty, even: one fragment per frame natively
                real = nat_ask("bot", *lv)
                rep.validated += 1
                acc, want = 0, []
                for x in lv:
                    want.append(acc)
                    acc += x + 8
                if real != " ".join(map(str, want)):
                    rep.inconclusive.append("native offset table for %s is [%s] although the encoding says it is %s" % (lv, real, want))
            rep.obligation(name, "holds", {"paths": res["paths"]})
