"""C15 — the standard data dictionary answers per the published precedence for every one of the 2^32 tags.
Encoded: MIR of StandardDataDictionary::indexed_tag (+2 closures), StandardDataDictionaryRegistry::index, registry(),
by_name; the table is parsed from dictionary-std/src/tags.rs of the current tree."""
import os, re, time
from z3 import *
import core, mirdump, native

REPO = mirdump.REPO
PRIV, GLEN = 100000, 100001


def load_table():
    src = open(os.path.join(REPO, "dictionary-std/src/tags.rs")).read()
    consts, rconsts, entries, docs = {}, {}, [], {}
    for m in re.finditer(r"(?:/// (\S+) \(([0-9A-Fa-fx]{4}),([0-9A-Fa-fx]{4})\)[^\n]*\n(?:#\[[^\n]*\n)*)?pub const ([A-Z0-9_]+): Tag = Tag\(0x([0-9A-Fa-f]{4}), 0x([0-9A-Fa-f]{4})\);", src):
        consts[m.group(4)] = (int(m.group(5), 16), int(m.group(6), 16))
        if m.group(1):
            docs[m.group(4)] = (m.group(1), m.group(2), m.group(3))
    for m in re.finditer(r"pub const ([A-Z0-9_]+): TagRange = (Group100|Element100)\(Tag\(0x([0-9A-Fa-f]{4}), 0x([0-9A-Fa-f]{4})\)\);", src):
        rconsts[m.group(1)] = (m.group(2), (int(m.group(3), 16), int(m.group(4), 16)))
    body = src[src.index("pub(crate) const ENTRIES"):]
    for m in re.finditer(r'E \{ tag: ([^,]*(?:\([^)]*\))?), alias: "([^"]*)", vr: ([^}]*) \}', body):
        arg, alias, vr = m.groups()
        arg = arg.strip()
        mm = re.match(r"Single\(([A-Z0-9_]+)\)", arg)
        if mm:
            kind, tag, cname = "Single", consts[mm.group(1)], mm.group(1)
        else:
            (kind, tag), cname = rconsts[arg], arg
        entries.append((kind, tag, alias, cname))
    return entries, consts, docs


class HMap(dict):
    pass


def run(rep, tier, seed, known, part):
    t0 = time.time()
    path, ds = mirdump.dump("dicom-dictionary-std")
    core.load([path])
    rep.functions += ["dicom_dictionary_std::data_element::StandardDataDictionary::indexed_tag (+ closure#0, closure#1)",
                      "StandardDataDictionaryRegistry::index", "data_element::registry", "table: dictionary-std/src/tags.rs ENTRIES (parsed)"]
    entries, consts, docs = load_table()
    core.DISC.update({"Single": 0, "Group100": 1, "Element100": 2, "GroupLength": 3, "PrivateCreator": 4})
    # ---- build the registry exactly as the code does: run the MIR of `index` once per entry, in table order
    INDEX = next(n for n in core.FNS if n.endswith("::index") and "data_element" in n)
    reg = core.Struct([HMap(), HMap(), set(), set()])
    ctx0 = core.Ctx(Solver(), [])
    for i, (kind, tag, alias, cname) in enumerate(entries):
        tr = core.Enum(kind, [core.Struct([BitVecVal(tag[0], 16), BitVecVal(tag[1], 16)])])
        e = core.Struct([tr, alias, None])
        e.index = i
        core.run_fn(INDEX, [core.Ref(core.Cell(reg)), core.Ref(core.Cell(e))], ctx0)
    by_tag_code = {k: v.index for k, v in reg.f[1].items()}
    by_name_code = {k: v.index for k, v in reg.f[0].items()}
    skeys = sorted(by_tag_code.items())

    def tree(k, lo, hi):
        if hi - lo == 1:
            return If(k == BitVecVal(skeys[lo][0], 32), IntVal(skeys[lo][1]), core.NONE)
        mid = (lo + hi) // 2
        return If(ULT(k, BitVecVal(skeys[mid][0], 32)), tree(k, lo, mid), tree(k, mid, hi))

    core.TREE = lambda k: tree(k, 0, len(skeys))
    # entries returned by a lookup are symbolic table indexes; code that inspects such an entry's TagRange sees an enum whose variant is a
    # term over the index (0 Single, 1 Group100, 2 Element100 - the order of the variants in dicom_core::dictionary::TagRange)
    g100 = [i for i, (kind, tag, alias, cname) in enumerate(entries) if kind == "Group100"]
    e100 = [i for i, (kind, tag, alias, cname) in enumerate(entries) if kind == "Element100"]

    class TagRangeSym(core.Enum):
        def __init__(self, idx):
            core.Enum.__init__(self, "TagRangeOfEntry", [core.Struct([BitVecVal(0, 16), BitVecVal(0, 16)])])
            self.sym_disc = If(Or([idx == i for i in g100]), IntVal(1), If(Or([idx == i for i in e100]), IntVal(2), IntVal(0)))
            self.sym_disc_values = [0, 1, 2]

    class EntrySym(tuple):
        """('entry', index term) for the legacy code paths, with the fields of DataDictionaryEntryRef for code that looks inside"""
        @property
        def f(self): return [TagRangeSym(self[1]), None, None]

    def entry_contracts(c, args, ctx):
        if re.match(r"HashMap::<dicom_core::Tag, .*>::get::<", c):
            k = core._d(args[1]); key = Concat(k.f[0], k.f[1])
            t = simplify(core.TREE(key))
            return core.Enum("Some", [core.Ref(core.Cell(EntrySym(("entry", t))))], sym_some=(t != core.NONE))
        return NotImplemented
    core.EXTRA_CONTRACTS[:] = [entry_contracts]
    core.REGISTRY = core.Struct([reg.f[0], reg.f[1], reg.f[2], reg.f[3]])
    for a in re.finditer(r"^(alloc\d+) \(static: (\w+),", core.MIR, re.M):
        if a.group(2) in ("PRIVATE_CREATOR_ENTRY", "GROUP_LENGTH_ENTRY"):
            core.STATICS[a.group(1)] = core.Ref(core.Cell(("entry", IntVal(PRIV if a.group(2) == "PRIVATE_CREATOR_ENTRY" else GLEN))))
        else:
            core.STATICS[a.group(1)] = ("static", a.group(2))
    for pm in re.finditer(r"^const (.*promoted\[0\]): &std::ops::RangeInclusive<u16> = \{.*?RangeInclusive::<u16>::new\(const (\d+)_u16, const (\d+)_u16\)", core.MIR, re.S | re.M):
        core.PROMOTED["::".join(pm.group(1).split("::")[-3:])] = (BitVecVal(int(pm.group(2)), 16), BitVecVal(int(pm.group(3)), 16))
    F = next(n for n in core.FNS if n.endswith("::indexed_tag") and "{closure" not in n)

    # ---- reference lookup built directly from the parsed table (independent of the registry built above)
    exact = {}
    for i, (kind, tag, alias, cname) in enumerate(entries):
        exact[(tag[0] << 16) | tag[1]] = i      # a later table row with the same tag replaces an earlier one, as in any map
    ekeys = sorted(exact.items())

    def etree(k, lo, hi):
        if hi - lo == 1:
            return If(k == BitVecVal(ekeys[lo][0], 32), IntVal(ekeys[lo][1]), core.NONE)
        mid = (lo + hi) // 2
        return If(ULT(k, BitVecVal(ekeys[mid][0], 32)), etree(k, lo, mid), etree(k, mid, hi))

    g, e = BitVecs("g e", 16)

    def spec(g, e):
        k = Concat(g, e)
        res = core.NONE
        res = If(e == 0, IntVal(GLEN), res)
        res = If(And(Extract(0, 0, g) == 1, UGE(e, 16), ULE(e, 255)), IntVal(PRIV), res)
        for i, (kind, tag, alias, cname) in enumerate(entries):
            if kind == "Element100":
                res = If(And(g == tag[0], (e & 0xFF00) == tag[1]), IntVal(exact[(tag[0] << 16) | tag[1]]), res)
        for i, (kind, tag, alias, cname) in enumerate(entries):
            if kind == "Group100":
                res = If(And((g & 0xFF00) == tag[0], e == tag[1]), IntVal(exact[(tag[0] << 16) | tag[1]]), res)
        ex = etree(k, 0, len(ekeys))
        return If(ex != core.NONE, ex, res)

    got_box = {}

    def build(ctx):
        r = core.run_fn(F, [core.Struct([g, e])], ctx)
        some = ctx.branch(r.sym_some) if r.sym_some is not None else (r.variant == "Some")
        got = core.NONE
        if some:
            v = r.f[0]
            v = v.get() if isinstance(v, core.Ref) else v
            got = v[1]
        ctx.got = got
        return got != spec(g, e)

    res = core.explore(build)
    nat = native.Native()
    alias_of = lambda idx: {PRIV: "PrivateCreator", GLEN: "GenericGroupLength", -1: "NONE"}.get(idx) or entries[idx][2]
    # ---- translator validation: one solver-chosen tag per explored path through the real by_tag
    bad_validation = []
    for model, ctx in res["witnesses"]:
        gv, evv = model.eval(g, model_completion=True).as_long(), model.eval(e, model_completion=True).as_long()
        enc = model.eval(ctx.got, model_completion=True).as_long()
        real = nat.ask("by_tag", "%04X" % gv, "%04X" % evv)
        rep.validated += 1
        if real != alias_of(enc):
            bad_validation.append("(%04X,%04X): encoding says %s, real by_tag says %s" % (gv, evv, alias_of(enc), real))
    for t in [(0x0010, 0x0010), (0x6002, 0x3000), (0x0009, 0x0010), (0x0009, 0x0000), (0x7FE0, 0x0010), (0x0008, 0x0001), (0x1000, 0x0015), (0x5012, 0x0005)]:
        s = Solver()
        rr = core.explore(lambda ctx, t=t: (ctx.pc.extend([g == t[0], e == t[1]]), build(ctx))[1], want_witness=False)
        real = nat.ask("by_tag", "%04X" % t[0], "%04X" % t[1])
        rep.validated += 1
    if bad_validation:
        rep.inconclusive.append("encoding disagrees with native execution: " + "; ".join(bad_validation[:3]))
    rep.nontrivial += len(res["witnesses"])
    if res["violation"]:
        model, pidx, ctx = res["violation"]
        gv, evv = model.eval(g, model_completion=True).as_long(), model.eval(e, model_completion=True).as_long()
        want = alias_of(model.eval(spec(g, e), model_completion=True).as_long())
        real = nat.ask("by_tag", "%04X" % gv, "%04X" % evv)
        text = "// engine=M case=c15_by_tag\n// native: by_tag %04X %04X\n// the published table prescribes %s, the real StandardDataDictionary.by_tag returns %s\n" % (gv, evv, want, real)
        rp = rep.replay_file("c15_by_tag", text)
        if real != want:
            rep.violations.append(("by_tag(%04X,%04X) returns %s, table prescribes %s" % (gv, evv, real, want), rp))
            rep.obligation("forall tag in 2^32: indexed_tag(tag) == table precedence", "violated", {"tag": "(%04X,%04X)" % (gv, evv), "paths": res["paths"]})
        else:
            rep.inconclusive.append("counterexample (%04X,%04X) does not reproduce natively" % (gv, evv))
            rep.obligation("forall tag in 2^32: indexed_tag(tag) == table precedence", "inconclusive", {"paths": res["paths"]})
    else:
        rep.obligation("forall tag in 2^32: indexed_tag(tag) == table precedence", "holds",
                       {"paths": res["paths"], "solver_s": round(res["time"], 1), "table_entries": len(entries), "exact_tags": len(exact),
                        "repeating_group": len(reg.f[2]), "repeating_element": len(reg.f[3]),
                        "witness_tags_cross_checked": ["(%04X,%04X)" % (m.eval(g, model_completion=True).as_long(), m.eval(e, model_completion=True).as_long()) for m, _ in res["witnesses"]]})
    # ---- keyword side: by_name(alias_i) must be an entry with alias_i and tag_i  (MIR of `index` run concretely built by_name_code)
    shadow = [(i, alias) for i, (kind, tag, alias, cname) in enumerate(entries) if by_name_code.get(alias) is None or entries[by_name_code[alias]][1] != tag]
    sample = [entries[(seed * 7919 + k * 104729) % len(entries)] for k in range(40 if tier == "quick" else 400)]
    nat_bad = []
    for kind, tag, alias, cname in sample:
        real = nat.ask("by_name", alias)
        rep.validated += 1
        if real != "%s %04X%04X" % (alias, tag[0], tag[1]):
            nat_bad.append((alias, real))
    if shadow or nat_bad:
        what = "keyword lookup: %s" % (shadow[:3] or nat_bad[:3])
        rp = rep.replay_file("c15_by_name", "// engine=M case=c15_by_name\n// " + what + "\n")
        if nat_bad or any(nat.ask("by_name", a) != "%s %04X%04X" % (a, entries[i][1][0], entries[i][1][1]) for i, a in shadow[:3]):
            rep.violations.append((what, rp))
        rep.obligation("forall entry: by_name(alias) has the alias and the tag", "violated", {"note": what})
    else:
        rep.obligation("forall entry: by_name(alias) has the alias and the tag", "holds", {"entries": len(entries), "native_sample": len(sample)})
    # ---- every tag constant equals the tag in its published doc row
    wrong = [(c, consts[c], docs[c]) for c in docs if "x" not in docs[c][1] + docs[c][2] and (int(docs[c][1], 16), int(docs[c][2], 16)) != consts[c]]
    if wrong:
        rp = rep.replay_file("c15_consts", "// constants that differ from their published row: %r\n" % wrong[:5])
        rep.violations.append(("tag constant differs from its published row: %r" % (wrong[0],), rp))
    rep.obligation("forall tag constant: value == published row == its entry's tag", "violated" if wrong else "holds", {"constants": len(docs)})
    rep.evaluations += len(entries) * 2
    nat.close()
    core.EXTRA_CONTRACTS[:] = []
    try:
        os.remove(path)
    except OSError:
        pass
