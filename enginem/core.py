"""Engine M core: a symbolic interpreter for the subset of rustc MIR text (`-Zunpretty=mir`) that the encoded
dicom-rs functions use.  Scalars are z3 terms, aggregates/containers are Python objects of concrete shape, control flow
forks (decision-replay DFS) on every branch the solver can take both ways.  Calls to functions whose MIR is loaded are
inlined; any other call must be in the contract table (`call`) or the run aborts as NotEncodable."""
import os, re, sys, time, itertools
from z3 import *

MIR = ''
FNS = {}


LAST_STMT = ['']
class ReachablePanic(Exception):
    """a call of core::panicking::* that the executed path reaches"""
SELF_TYPES = []
MIR_OPS = set('Not Neg Add Sub Mul Div Rem BitAnd BitOr BitXor Shl Shr Eq Ne Lt Le Gt Ge Cmp Offset PtrMetadata Len AddWithOverflow SubWithOverflow MulWithOverflow AddUnchecked SubUnchecked MulUnchecked ShlUnchecked ShrUnchecked UbChecks NullOp SizeOf AlignOf CopyForDeref ShallowInitBox'.split())
SIMPLE_CONSTS = {}
class NotEncodable(Exception):
    pass


def load(paths):
    """(re)load MIR dumps; must be called before anything else"""
    global MIR, FNS
    MIR = '\n'.join(open(p).read() for p in paths)
    FNS.clear()
    FNS.update(parse_functions(MIR))
    STATICS.clear(); PROMOTED.clear(); CLOSURE_OF.clear(); del KEEP[:]

# ---------------------------------------------------------------- parsing
class Fn:
    def __init__(self, name, params, blocks): self.name, self.params, self.blocks = name, params, blocks

def parse_functions(text):
    fns = {}
    for m in re.finditer(r'^const ([^\n]+): ((?:[^\n:]|::)*?) = const ([^\n]+);$', text, re.M):
        SIMPLE_CONSTS[m.group(1)] = (m.group(2), m.group(3))
    for m in re.finditer(r'^const ([^\n]+): ((?:[^\n{:]|::)*?) = \{\n(.*?)^\}', text, re.S | re.M):
        blocks = {}
        for bm in re.finditer(r'^    (bb\d+)(?: \(cleanup\))?: \{\n(.*?)^    \}', m.group(3), re.S | re.M):
            blocks[bm.group(1)] = [l.strip() for l in bm.group(2).split('\n') if l.strip()]
        f = Fn(m.group(1), 0, blocks); f.ptext = ''; f.ret = m.group(2); f.debug = {}; f.captures = []
        fns[m.group(1)] = f
    for m in re.finditer(r'^fn (.+?)\((.*?)\) -> (.*?) \{\n(.*?)^\}', text, re.S | re.M):
        name, params, ret, body = m.group(1), m.group(2), m.group(3), m.group(4)
        blocks = {}
        for bm in re.finditer(r'^    (bb\d+)(?: \(cleanup\))?: \{\n(.*?)^    \}', body, re.S | re.M):
            stmts = [l.strip() for l in bm.group(2).split('\n') if l.strip()]
            blocks[bm.group(1)] = stmts
        nparams = len(re.findall(r'_\d+: ', params))
        f = Fn(name, nparams, blocks); f.ptext = params; f.ret = ret
        f.types = {}
        for pm in re.finditer(r'_(\d+): ([^,]+(?:<[^>]*>)?[^,]*)', params): f.types[int(pm.group(1))] = pm.group(2).strip()
        for lm in re.finditer(r'^\s*let (?:mut )?_(\d+): (.*?);', body, re.M): f.types[int(lm.group(1))] = lm.group(2).strip()
        f.debug = {m2.group(1): int(m2.group(2)) for m2 in re.finditer(r'debug (\w+) => _(\d+);', body)}
        f.captures = [(int(m2.group(2)), m2.group(1)) for m2 in re.finditer(r'debug (\w+) => \(?\*?\(?_1\.(\d+): ', body)]
        fns[name] = f
    return fns

# ---------------------------------------------------------------- values
class Cell:
    def __init__(self, v=None): self.v = v
class Ref:
    """reference to a place: root cell + projection path"""
    def __init__(self, cell, path=()): self.cell, self.path = cell, tuple(path)
    def get(self):
        v = self.cell.v
        for p in self.path: v = proj_get(v, p)
        return v
    def set(self, nv):
        if not self.path: self.cell.v = nv; return
        self.cell.v = proj_set(self.cell.v, self.path, nv)
class Struct:
    def __init__(self, fields): self.f = list(fields)
class Enum:
    """disc: python int or z3 Int; variants: dict name->index ; payload fields"""
    def __init__(self, variant, fields, sym_some=None):
        self.variant, self.f, self.sym_some = variant, list(fields), sym_some  # sym_some: z3 Bool => Option with symbolic presence
class Str:  # byte string of concrete length, bytes are ints or z3 BV8
    def __init__(self, b): self.b = list(b)
class Closure:
    def __init__(self, fn): self.fn = fn
CLOSURE_OF = {}
KEEP = []
CURRENT_FN = []

def concrete_index(v):
    if isinstance(v, int): return v
    v = simplify(v)
    if is_bv_value(v) or is_int_value(v): return v.as_long()
    raise NotEncodable('symbolic array index')
def seq_store(v):
    if hasattr(v, 'store'): return v.store(), getattr(v, 'off', 0)
    if isinstance(v, Struct): return v.f, 0
    if isinstance(v, Str): return v.b, 0
    return v.items, 0
def proj_get(v, p):
    kind, arg = p
    if kind == 'index':
        st, off = seq_store(v); return st[off + arg]
    if kind == 'deref': return v.get() if isinstance(v, Ref) else v     # constants (b"..", promoted) are kept unwrapped
    if kind == 'field':
        if isinstance(v, Str) and arg == 0: return v       # (cow as Borrowed).0
        return v.f[arg]
    if kind == 'downcast': return v
    raise Exception(p)
def proj_set(v, path, nv):
    (kind, arg), rest = path[0], path[1:]
    if kind == 'deref':
        if rest: Ref(v.cell, v.path + tuple(rest)).set(nv)
        else: v.set(nv)
        return v
    if kind == 'field':
        v.f[arg] = nv if not rest else proj_set(v.f[arg], rest, nv); return v
    if kind == 'index':
        st, off = seq_store(v)
        st[off + arg] = nv if not rest else proj_set(st[off + arg], rest, nv); return v
    if kind == 'downcast': return proj_set(v, rest, nv) if rest else nv
    raise Exception(path)

# ---------------------------------------------------------------- place / operand parsing
CHAR_LIT = re.compile(r"'(\\u\{[0-9a-fA-F]+\}|\\.|[^'\\])'")
def split_top(s, sep=','):
    out, depth, cur, i = [], 0, '', 0
    while i < len(s):
        ch = s[i]
        if ch == "'":                     # a char literal such as ',' or '(' must not be read as structure
            mq = CHAR_LIT.match(s, i)
            if mq: cur += mq.group(0); i = mq.end(); continue
        if ch in '([{<': depth += 1
        if ch in ')]}>': depth -= 1
        if ch == sep and depth == 0: out.append(cur.strip()); cur = ''
        else: cur += ch
        i += 1
    if cur.strip(): out.append(cur.strip())
    return out

def parse_place(s):
    s = s.strip()
    m = re.fullmatch(r'_(\d+)', s)
    if m: return (int(m.group(1)), [])
    mi = re.fullmatch(r'(.*)\[_(\d+)\]', s)
    if mi and (mi.group(1).count('(') == mi.group(1).count(')')):
        base, path = parse_place(mi.group(1)); return (base, path + [('index_local', int(mi.group(2)))])
    mi = re.fullmatch(r'(.*)\[(\d+) of \d+\]', s)
    if mi and (mi.group(1).count('(') == mi.group(1).count(')')):
        base, path = parse_place(mi.group(1)); return (base, path + [('index', int(mi.group(2)))])
    if s.startswith('(*') and s.endswith(')'):
        base, path = parse_place(s[2:-1]); return (base, path + [('deref', None)])
    if s.startswith('(') and s.endswith(')'):
        inner = s[1:-1]
        m = re.fullmatch(r'(.*) as (\w+)', inner)
        if m and not re.search(r'\.\d+: ', inner.split(' as ')[-1]):
            base, path = parse_place(m.group(1)); return (base, path + [('downcast', m.group(2))])
        # field: (place.N: Type)
        depth = 0
        for i, ch in enumerate(inner):
            if ch in '(': depth += 1
            if ch in ')': depth -= 1
            if depth == 0 and ch == '.' and re.match(r'\.\d+: ', inner[i:]):
                idx = int(re.match(r'\.(\d+): ', inner[i:]).group(1))
                base, path = parse_place(inner[:i]); return (base, path + [('field', idx)])
    raise Exception('place? ' + s)

class Frame:
    def __init__(self): self.locals = {}
    def cell(self, n):
        if n not in self.locals: self.locals[n] = Cell()
        return self.locals[n]
    def ref(self, place):
        base, path = place
        if any(k == 'index_local' for k, _ in path):
            path = [('index', concrete_index(self.cell(a).v)) if k == 'index_local' else (k, a) for k, a in path]
        return Ref(self.cell(base), path)

# ---------------------------------------------------------------- interpreter state (forking by exceptions + replay of decisions)
class Fork(Exception): pass
class Ctx:
    def __init__(self, solver, decisions): self.s, self.dec, self.i, self.pc = solver, decisions, 0, []
    def branch(self, cond):
        """cond: z3 Bool or python bool -> python bool, forking when undetermined"""
        if isinstance(cond, (bool, int)): return bool(cond)
        cond = simplify(cond)
        if is_true(cond): return True
        if is_false(cond): return False
        if self.i < len(self.dec):
            d = self.dec[self.i]; self.i += 1
        else:
            # explore: can it be true / false ?
            self.s.push(); self.s.add(self.pc + [cond]); t = self.s.check() == sat; self.s.pop()
            self.s.push(); self.s.add(self.pc + [Not(cond)]); f = self.s.check() == sat; self.s.pop()
            if t and f: raise Fork()
            d = t
            self.dec.append(d); self.i += 1
        self.pc.append(cond if d else Not(cond))
        return d

def eval_operand(fr, s, ctx):
    s = s.strip()
    s = re.sub(r'^(no_retag )?(move|copy) ', '', s)
    if s.startswith('const '):
        c = s[6:]
        if c.startswith("'"):
            body = c[1:-1]
            if len(body) == 1: return ord(body)
            mu = re.fullmatch(r'\\u\{([0-9a-fA-F]+)\}', body)
            if mu: return int(mu.group(1), 16)
            if body.startswith('\\') and len(body) == 2: return {'n': 10, 't': 9, 'r': 13, '0': 0, '\\': 92, "'": 39, '"': 34}[body[1]]
            return c
        if c.startswith('ZeroSized: {closure@'):
            return Closure(find_closure(c))
        m = re.fullmatch(r'(-?[\d.]+(?:e-?\d+)?)f64', c)
        if m: return FPVal(float(m.group(1)), Float64())
        m = re.match(r'(-?\d+)_(u8|u16|u32|u64|i16|i32|i64)$', c)
        if m: return BitVecVal(int(m.group(1)), int(m.group(2)[1:]))
        m = re.match(r'(-?\d+)_', c)
        if m: return int(m.group(1))
        m = re.match(r'\{(alloc\d+): ', c)
        if m: return STATICS[m.group(1)]
        mp = re.search(r'promoted\[(\d+)\]$', c)
        if mp:
            key = '::'.join(c.split('::')[-3:])
            if key in PROMOTED: return Ref(Cell(PROMOTED[key]))
            pname = CURRENT_FN[-1].name + '::promoted[%s]' % mp.group(1)
            if pname in FNS: return run_fn(pname, [], ctx)
            stripped = re.sub(r'::<[^<>]*>', '', c)
            cands = [n for n in FNS if 'promoted[' in n and (stripped == n or stripped.endswith('::' + n))]
            if len(cands) == 1: return run_fn(cands[0], [], ctx)
            raise NotEncodable('promoted constant ' + c)
        mc = re.fullmatch(r'(?:core::num::<impl )?([ui])(8|16|32|64|size)>?::(MAX|MIN)', c)
        if mc:
            w = 64 if mc.group(2) == 'size' else int(mc.group(2))
            val = {('u', 'MAX'): (1 << w) - 1, ('u', 'MIN'): 0, ('i', 'MAX'): (1 << (w - 1)) - 1, ('i', 'MIN'): -(1 << (w - 1))}[(mc.group(1), mc.group(3))]
            return val if mc.group(2) == 'size' else BitVecVal(val, w)
        if re.fullmatch(r'(?:std::option::)?Option::<.*>::None', c): return Enum('None', [])
        if c in ('true', 'false'): return c == 'true'
        if c.startswith('b"'):
            return rust_bytes(c[2:-1])
        if c.startswith('"'):
            lit = bytes(c[1:-1], 'utf-8').decode('unicode_escape').encode('latin-1')
            return Str(list(lit))
        if re.fullmatch(r'(?:\w+::)*[A-Za-z_]\w*', c):     # named constant of the dumped crates
            segs = c.split('::')
            sc = [k for k in SIMPLE_CONSTS if k == c or k.endswith('::' + segs[-1]) or k == segs[-1]]
            if len(sc) == 1: return eval_operand(fr, 'const ' + SIMPLE_CONSTS[sc[0]][1], ctx)
            cf = [n for n, f in FNS.items() if f.params == 0 and not f.ptext and n.endswith('>::' + segs[-1]) and
                  (len(segs) < 2 or f.ret.strip().split('::')[-1] == segs[-2] or segs[-2] in n)]
            if len(cf) == 1: return run_fn(cf[0], [], ctx)
            cf = [n for n, f in FNS.items() if f.params == 0 and not f.ptext and (n == c or n == segs[-1] or n.endswith('::' + segs[-1])) and 'promoted[' not in n and '{closure' not in n]
            if len(cf) == 1: return run_fn(cf[0], [], ctx)       # a free constant with a computed initialiser
        return ('const', c)
    if re.match(r'^(<.*>|[A-Za-z_][\w:]*)(::<.*>)?::\w+(::<.*>)?$', s) and not re.fullmatch(r'_\d+', s):
        return ('fnitem', s)          # a function item passed as a value (e.g. to map_err)
    return fr.ref(parse_place(s)).get()

def rust_bytes(body):
    out, i = [], 0
    while i < len(body):
        ch = body[i]
        if ch == '\\':
            n = body[i + 1]
            if n == 'x': out.append(int(body[i + 2:i + 4], 16)); i += 4
            else: out.append({'n': 10, 't': 9, 'r': 13, '0': 0, '\\': 92, '"': 34, "'": 39}[n]); i += 2
        else:
            out.append(ord(ch)); i += 1
    return bytes(out)


def find_closure(c):
    loc = re.search(r'closure@([^}]*)\}', c).group(1)
    for name, fn in FNS.items():
        if '{closure#' in name:
            pass
    # match by closure index order: use location inside parameter text of closures
    cands = [n for n in FNS if '{closure#' in n]
    for n in cands:
        m = re.search(re.escape(n) + r'\(_1: (&mut |&)?\{closure@' + re.escape(loc), MIR)
        if m: return n
    raise Exception('closure ' + loc)

ENUMS = {}               # 'Type::Variant' -> discriminant, registered by the case modules for enums built by the executed code
def enum_variant_of(path):
    segs = [x for x in re.sub(r'::<[^<>]*(<[^<>]*>[^<>]*)*>', '', path).split('::') if x]
    if len(segs) >= 2 and (segs[-2] + '::' + segs[-1]) in ENUMS: return (segs[-1], ENUMS[segs[-2] + '::' + segs[-1]])
    return None

def subst_generics(gs):
    """a generic function instantiating another with its own type parameter (`f::<T>`): T stands for what the caller was instantiated with"""
    prev = GENERICS[-1] if GENERICS else []
    return [(prev[0] if re.fullmatch(r'[A-Z]', g) and prev else g) for g in gs]

def split_path(p):
    """'a::B::<X<Y>>::m::<Z>' -> [('a', ''), ('B', 'X<Y>'), ('m', 'Z')] (generic arguments attached to the segment before them)"""
    segs, cur, depth, i = [], '', 0, 0
    parts = []
    while i < len(p):
        ch = p[i]
        if ch == '<': depth += 1
        if ch == '>': depth -= 1
        if depth == 0 and p.startswith('::', i):
            parts.append(cur); cur = ''; i += 2; continue
        cur += ch; i += 1
    parts.append(cur)
    for part in parts:
        if part.startswith('<') and part.endswith('>') and segs:
            segs[-1] = (segs[-1][0], part[1:-1])
        else:
            segs.append((part, ''))
    return segs

def disc_value(e, ctx):
    if isinstance(e, Str): return 0 if getattr(e, 'cow', 'Borrowed') == 'Borrowed' else 1      # Cow<str>
    if hasattr(e, 'sym_disc'):                 # an enum whose variant is a term: fork over the feasible variants
        for k in e.sym_disc_values[:-1]:
            if ctx.branch(e.sym_disc == k): return k
        return e.sym_disc_values[-1]
    if hasattr(e, 'idx'): return e.idx
    if e.variant in DISC: return DISC[e.variant]
    return 1 if option_is_some(e, ctx) else 0

def eval_rvalue(fr, rv, ctx):
    rv = rv.strip()
    if rv.startswith('&mut '): return fr.ref(parse_place(rv[5:]))
    if rv.startswith('&raw const (fake) '): return fr.ref(parse_place(rv[len('&raw const (fake) '):]))      # only used to read the length (PtrMetadata) for a bounds check
    if rv.startswith('&raw '): raise Exception(rv)
    if rv.startswith('&'): return fr.ref(parse_place(rv[1:]))
    mrep = re.fullmatch(r'\[(.*); (\d+)(?:_usize)?\]', rv)
    if mrep and len(split_top(mrep.group(1))) == 1:
        e = eval_operand(fr, mrep.group(1), ctx)
        return Struct([e] * int(mrep.group(2)))
    if rv.startswith('[') and rv.endswith(']'):
        return Struct([eval_operand(fr, o, ctx) for o in split_top(rv[1:-1])])
    m = re.fullmatch(r'discriminant\((.*)\)', rv)
    if m:
        v = fr.ref(parse_place(m.group(1))).get()
        return ('disc', v)
    m = re.fullmatch(r'(.*) as .* \(PointerCoercion.*\)', rv)
    if m: return eval_operand(fr, m.group(1), ctx)
    m = re.fullmatch(r'(.*) as f(32|64) \(FloatToFloat\)', rv)
    if m:
        return fpToFP(RNE(), eval_operand(fr, m.group(1), ctx), Float32() if m.group(2) == '32' else Float64())
    m = re.fullmatch(r'(.*) as f(32|64) \(IntToFloat\)', rv)
    if m:
        v = eval_operand(fr, m.group(1), ctx)
        src = re.sub(r'^(no_retag )?(move|copy) ', '', m.group(1).strip())
        ml = re.search(r'_(\d+)', src)
        ty = getattr(CURRENT_FN[-1], 'types', {}).get(int(ml.group(1)), '') if ml else ''
        signed = bool(re.fullmatch(r'&*i(8|16|32|64|128|size)', ty.strip()))
        sort = Float32() if m.group(2) == '32' else Float64()
        if isinstance(v, int): return FPVal(float(v), sort)
        return fpSignedToFP(RNE(), v, sort) if signed else fpUnsignedToFP(RNE(), v, sort)
    m = re.fullmatch(r'(.*) as (\*const|\*mut) .* \((Transmute|PtrToPtr)\)', rv)
    if m:      # pointer-to-pointer casts keep the reference (Box internals: NonNull -> *const)
        v = eval_operand(fr, m.group(1), ctx)
        if isinstance(v, Ref): return v
        raise NotEncodable('pointer cast of a non-reference: ' + rv[:80])
    m = re.fullmatch(r'(?:std::option::)?Option::<.*>::Some\((.*)\)', rv)
    if m: return Enum('Some', [eval_operand(fr, m.group(1), ctx)])
    if re.fullmatch(r'(std::option::)?Option::<.*>::None', rv): return Enum('None', [])
    m = re.fullmatch(r'(?:std::result::)?Result::<.*>::(Ok|Err)\((.*)\)', rv)
    if m: return Enum(m.group(1), [eval_operand(fr, m.group(2), ctx)])
    m = re.fullmatch(r'\{closure@[^}]*\} \{(.*)\}', rv)
    if m:
        st = Struct([eval_operand(fr, part.split(':', 1)[1], ctx) for part in split_top(m.group(1))])
        loc = re.match(r'\{closure@([^}]*)\}', rv).group(1)
        name = next(n for n in FNS if '{closure#' in n and re.search(re.escape(n) + r'\(_1: (&mut |&)?\{closure@' + re.escape(loc), MIR))
        caps = sorted(set(FNS[name].captures))
        if len(caps) > len(st.f):                      # MIR text printer zips capture *names* with operands and truncates
            for k, cname in caps[len(st.f):]:
                base = re.sub(r'__\d+$', '', cname)
                plocal = CURRENT_FN[-1].debug[base]
                mm = re.search(r'__(\d+)$', cname)
                st.f.append(Ref(fr.cell(plocal), [('field', int(mm.group(1)))]) if mm else fr.cell(plocal).v)
        CLOSURE_OF[id(st)] = name
        KEEP.append(st)
        return st
    m = re.fullmatch(r'(ConvertValueError|NarrowConvertSnafu::<String>) \{(.*)\}', rv)
    if m: return ('opaque', m.group(1))
    m = re.fullmatch(r"Cow::<.*>::(Owned|Borrowed)\((.*)\)", rv)
    if m:
        v = eval_operand(fr, m.group(2), ctx)
        inner = _d(v)
        if isinstance(inner, Str):      # a Cow<str> is its text; which variant it is stays visible to `match` through .cow
            v = Str(list(inner.b)); v.cow = m.group(1)
        return v
    m = re.fullmatch(r'(Mul|Div|Rem|BitOr|BitXor|Shl|Shr|MulUnchecked|AddUnchecked|SubUnchecked|ShlUnchecked|ShrUnchecked)\((.*)\)', rv)
    if m:
        ops = split_top(m.group(2))
        a, b = [eval_operand(fr, o, ctx) for o in ops]
        op = m.group(1).replace('Unchecked', '')
        if (is_expr(a) and is_fp(a)) or (is_expr(b) and is_fp(b)):
            if op == 'Mul': return fpMul(RNE(), a, b)
            if op == 'Div': return fpDiv(RNE(), a, b)
            raise NotEncodable('float ' + op)
        if isinstance(a, bool): a = int(a)
        if isinstance(b, bool): b = int(b)
        if isinstance(a, int) and isinstance(b, int):
            if op in ('Div', 'Rem') and b == 0: raise NotEncodable('reachable division by zero')
            return {'Mul': lambda: a * b, 'Div': lambda: abs(a) // abs(b) * (1 if (a < 0) == (b < 0) else -1), 'Rem': lambda: abs(a) % abs(b) * (1 if a >= 0 else -1),
                    'BitOr': lambda: a | b, 'BitXor': lambda: a ^ b, 'Shl': lambda: a << b, 'Shr': lambda: a >> b, 'Add': lambda: a + b, 'Sub': lambda: a - b}[op]()
        # symbolic: width of the bit-vector operand; signedness from the declared type of the first operand's local
        w = (a if not isinstance(a, int) else b).size()
        if op in ('Shl', 'Shr') and not isinstance(b, int) and b.size() != w:
            b = Extract(w - 1, 0, b) if b.size() > w else ZeroExt(w - b.size(), b)
        a = BitVecVal(a, w) if isinstance(a, int) else a
        b = BitVecVal(b, w) if isinstance(b, int) else b
        ml = re.search(r'_(\d+)', ops[0])
        ty = getattr(CURRENT_FN[-1], 'types', {}).get(int(ml.group(1)), '') if ml else ''
        signed = bool(re.search(r'\bi(8|16|32|64|size)\b', ty))
        return {'Mul': lambda: a * b, 'Div': lambda: (a / b) if signed else UDiv(a, b), 'Rem': lambda: SRem(a, b) if signed else URem(a, b),
                'BitOr': lambda: a | b, 'BitXor': lambda: a ^ b, 'Shl': lambda: a << b, 'Shr': lambda: (a >> b) if signed else LShR(a, b),
                'Add': lambda: a + b, 'Sub': lambda: a - b}[op]()
    m = re.fullmatch(r'(BitAnd|Eq|Ne|Lt|Le|Gt|Ge|Add|Sub)\((.*)\)', rv)
    if m:
        a, b = [eval_operand(fr, o, ctx) for o in split_top(m.group(2))]
        op = m.group(1)
        if is_expr(a) and is_fp(a) or is_expr(b) and is_fp(b):
            rm = RNE()
            return {'Add': lambda: fpAdd(rm, a, b), 'Sub': lambda: fpSub(rm, a, b), 'Le': lambda: fpLEQ(a, b), 'Lt': lambda: fpLT(a, b),
                    'Gt': lambda: fpGT(a, b), 'Ge': lambda: fpGEQ(a, b), 'Eq': lambda: fpEQ(a, b)}[op]()
        if isinstance(a, tuple) and a and a[0] == 'disc': a = disc_value(a[1], ctx)
        if isinstance(b, tuple) and b and b[0] == 'disc': b = disc_value(b[1], ctx)
        if op == 'BitAnd': return a & b
        if op == 'Eq': return a == b
        if op == 'Ne': return a != b
        if isinstance(a, int) and isinstance(b, int):
            return {'Lt': a < b, 'Le': a <= b, 'Gt': a > b, 'Ge': a >= b, 'Add': a + b, 'Sub': a - b}[op]
        if op in ('Lt', 'Le', 'Gt', 'Ge'):
            ml = re.search(r'_(\d+)', m.group(2))
            ty = getattr(CURRENT_FN[-1], 'types', {}).get(int(ml.group(1)), '') if ml else ''
            if re.fullmatch(r'&*i(8|16|32|64|128|size)', ty.strip()) or re.search(r'const -?\d+_i(8|16|32|64|size)', m.group(2)):
                return {'Lt': lambda: a < b, 'Le': lambda: a <= b, 'Gt': lambda: a > b, 'Ge': lambda: a >= b}[op]()
            return {'Lt': ULT, 'Le': ULE, 'Gt': UGT, 'Ge': UGE}[op](a, b)
        if op == 'Add': return a + b
        if op == 'Sub': return a - b
        raise Exception('binop ' + op)
    m = re.fullmatch(r'(Add|Sub|Mul)WithOverflow\((.*)\)', rv)
    if m:
        a, b = [eval_operand(fr, o, ctx) for o in split_top(m.group(2))]
        if isinstance(a, bool): a = int(a)
        if isinstance(b, bool): b = int(b)
        if isinstance(a, int) and isinstance(b, int):
            return Struct([{'Add': a + b, 'Sub': a - b, 'Mul': a * b}[m.group(1)], False])
        # symbolic: bit-vector of the operand width; unsigned overflow flag (the encoded container code only uses unsigned lengths)
        w = (a if not isinstance(a, int) else b).size()
        a = BitVecVal(a, w) if isinstance(a, int) else a
        b = BitVecVal(b, w) if isinstance(b, int) else b
        ea, eb = ZeroExt(w, a), ZeroExt(w, b)
        wide = {'Add': ea + eb, 'Sub': ea - eb, 'Mul': ea * eb}[m.group(1)]
        res = Extract(w - 1, 0, wide)
        return Struct([res, ZeroExt(w, res) != wide])
    m = re.fullmatch(r'(.*) as (\w+) \(IntToInt\)', rv)
    if m:
        v = eval_operand(fr, m.group(1), ctx)
        if isinstance(v, bool): return int(v)
        if is_expr(v) and is_bv(v):
            w = {'u8': 8, 'i8': 8, 'u16': 16, 'i16': 16, 'u32': 32, 'i32': 32, 'u64': 64, 'i64': 64, 'usize': 64, 'isize': 64}.get(m.group(2))
            if w and w < v.size(): return Extract(w - 1, 0, v)
            if w and w > v.size():
                # widening: sign-extend iff the SOURCE type is a signed integer (declared type of the local the operand reads)
                src = re.sub(r'^(no_retag )?(move|copy) ', '', m.group(1).strip())
                ml = re.search(r'_(\d+)', src)
                ty = getattr(CURRENT_FN[-1], 'types', {}).get(int(ml.group(1)), '') if ml else ''
                mt = re.search(r'\b([iu])(8|16|32|64|size)\b', ty.replace('&', ' '))
                signed = bool(mt and mt.group(1) == 'i')
                return SignExt(w - v.size(), v) if signed else ZeroExt(w - v.size(), v)
        return v
    if rv.startswith('(') and rv.endswith(')') and re.match(r'\((move|copy|const) ', rv):
        parts = split_top(rv[1:-1])
        if len(parts) > 1 or rv.endswith(',)'):
            return Struct([eval_operand(fr, o, ctx) for o in parts])
    mv = re.fullmatch(r"((?:[A-Za-z_]\w*::)*[A-Z]\w*)::<.*>::([A-Z]\w*)\((.*)\)", rv)
    if mv and not rv.startswith(('move ', 'copy ', 'const ')) and rv.index('(') > rv.index('>::'):    # Enum::<generics>::Variant(fields)
        e = Enum(mv.group(2), [eval_operand(fr, o, ctx) for o in split_top(mv.group(3))])
        ev = enum_variant_of(mv.group(1) + '::' + mv.group(2))
        if ev: e.idx = ev[1]
        return e
    m = re.fullmatch(r"((?:[A-Za-z_]\w*::)*[A-Z]\w*)(::<.*?>)?\((.*)\)", rv)
    if m and not rv.startswith(('move ', 'copy ', 'const ')) and ('::' in m.group(1) or m.group(2) or m.group(1) not in MIR_OPS):   # tuple-struct constructor (always printed with a path or generics)
        st = Struct([eval_operand(fr, o, ctx) for o in split_top(m.group(3))])
        st.kind = m.group(1).split('::')[-1] + (m.group(2)[2:] if m.group(2) else '')
        ev = enum_variant_of(rv[:rv.index('(')])
        if ev: e = Enum(ev[0], st.f); e.idx = ev[1]; return e
        return st
    m = re.fullmatch(r"((?:[A-Za-z_]\w*::)*[A-Z]\w*)(::<.*?>)? \{ (.*) \}", rv)
    if m:                                                                          # struct aggregate
        st = Struct([eval_operand(fr, part.split(':', 1)[1], ctx) for part in split_top(m.group(3))])
        st.kind = m.group(1).split('::')[-1]
        ev = enum_variant_of(rv[:rv.index(' {')])
        if ev: e = Enum(ev[0], st.f); e.idx = ev[1]; return e
        return st
    if re.fullmatch(r'(?:[A-Za-z_]\w*::)*[A-Z]\w*', rv) and not rv.startswith(('move ', 'copy ', 'const ')):
        e = Enum(rv.split('::')[-1], [])          # unit enum variant / unit struct
        ev = enum_variant_of(rv)
        if ev: e.idx = ev[1]
        if e.variant in VRNAMES: e.idx = VRNAMES.index(e.variant)
        return e
    m = re.fullmatch(r'PtrMetadata\((.*)\)', rv)
    if m:
        v = _d(eval_operand(fr, m.group(1), ctx))
        if isinstance(v, VecV): return len(v.items)
        if isinstance(v, Str): return len(v.b)
        if isinstance(v, Struct): return len(v.f)
        raise NotEncodable('length of ' + repr(v))
    m = re.fullmatch(r'(Not|Neg)\((.*)\)', rv)
    if m:
        v = eval_operand(fr, m.group(2), ctx)
        if m.group(1) == 'Not':
            if isinstance(v, bool): return not v
            if is_expr(v) and is_bool(v): return Not(v)
            return ~v
        return -v
    m = re.fullmatch(r'dicom_core::Tag\((.*)\)', rv)
    if m: return Struct([eval_operand(fr, o, ctx) for o in split_top(m.group(1))])
    m = re.fullmatch(r'(FullAeAddr|AeAddr)::<T> \{(.*)\}', rv)
    if m: return Struct([eval_operand(fr, part.split(':', 1)[1], ctx) for part in split_top(m.group(2))])
    if re.fullmatch(r'ParseAeAddressError::<.*>::MissingPart', rv): return ('opaque', 'MissingPart')
    m = re.fullmatch(r'PersonName::<.*> \{(.*)\}', rv)
    if m:
        names = ['prefix', 'family', 'middle', 'given', 'suffix']
        d = {}
        for part in split_top(m.group(1)):
            k, v = part.split(':', 1); d[k.strip()] = eval_operand(fr, v, ctx)
        return Struct([d[n] for n in names])
    return eval_operand(fr, rv, ctx)

DISC = {'Empty':0,'Strs':1,'Str':2,'Tags':3,'U8':4,'I16':5,'U16':6,'I32':7,'U32':8,'I64':9,'U64':10,'F32':11,'F64':12,'Date':13,'DateTime':14,'Time':15,
        'Ok':0,'Err':1,'Continue':0,'Break':1}
TARGET = {'bits':16, 'signed':True}   # T = i16 for this prototype run
# ---------------------------------------------------------------- std contracts
class MapIter:
    def __init__(self, it, clo): self.it, self.clo = it, clo
class VecV:
    def __init__(self, items): self.items = list(items)
def numcast(v, src_bits, src_signed):
    tb, ts = TARGET['bits'], TARGET['signed']
    lo, hi = (-(1 << (tb-1)), (1 << (tb-1)) - 1) if ts else (0, (1 << tb) - 1)
    w = 72
    x = SignExt(w - src_bits, v) if src_signed else ZeroExt(w - src_bits, v)
    ok = And(x >= BitVecVal(lo, w), x <= BitVecVal(hi, w))     # signed compare on 72 bits
    return Enum('Some', [Extract(tb-1, 0, x)], sym_some=ok)
class SliceIter:
    def __init__(self, items): self.items = list(items)
    def next(self): return self.items.pop(0) if self.items else None
    def next_back(self): return self.items.pop() if self.items else None
class Rev:
    def __init__(self, it): self.it = it
    def next(self): return self.it.next_back()
    def next_back(self): return self.it.next()
class Peekable:
    def __init__(self, it): self.it, self.peeked = it, ()
    def peek(self):
        if not self.peeked: self.peeked = (self.it.next(),)
        return self.peeked[0]
    def next(self):
        if self.peeked: v = self.peeked[0]; self.peeked = (); return v
        return self.it.next()
    def next_back(self):
        # std: Peekable::next_back — if peeked is Some(None) -> None; else inner.next_back() or take peeked
        if self.peeked and self.peeked[0] is None: return None
        v = self.it.next_back()
        if v is None and self.peeked: v = self.peeked[0]; self.peeked = ()
        return v
class EnumerateIter:
    def __init__(self, it): self.it, self.i = it, 0
    def next(self):
        x = self.it.next()
        if x is None: return None
        self.i += 1
        return Struct([self.i - 1, x])
class AbstractBytes:
    """a byte vector of which only the (symbolic) length matters"""
    def __init__(self, length): self.length = length
def _d(v):
    while isinstance(v, Ref): v = v.get()
    return v
class SplitIter:
    def __init__(self, s, ch): self.rest, self.ch, self.done = list(s.b), ch, False

def opt(v): return Enum('None', []) if v is None else Enum('Some', [v])


def split_next(it, ctx):
    if it.done: return None
    for i, by in enumerate(it.rest):
        if ctx.branch(by == it.ch if not isinstance(by, int) else by == it.ch):
            piece, it.rest = it.rest[:i], it.rest[i + 1:]
            return Str(piece)
    it.done = True
    return Str(it.rest)


def closure_name(clo):
    return CLOSURE_OF[id(clo)] if id(clo) in CLOSURE_OF else clo.fn


def iter_next(it, ctx):
    """next() of any iterator object of the interpreter (None = exhausted)"""
    it = _d(it)
    if isinstance(it, SplitIter): return split_next(it, ctx)
    if isinstance(it, MapIter):
        x = iter_next(it.it, ctx)
        if x is None: return None
        clo = _d(it.clo)
        return run_fn(closure_name(clo), [Ref(Cell(clo)) if not isinstance(clo, Closure) else clo, x], ctx)
    return it.next()

def is_ws(b): return Or(b == 0x20, And(UGE(b, 9), ULE(b, 13))) if not isinstance(b, int) else (b == 0x20 or 9 <= b <= 13)

def option_is_some(o, ctx):
    if o.sym_some is not None: return ctx.branch(o.sym_some)
    return o.variant == 'Some'

class Events:
    def __init__(self): self.ev = []
def resolve_cross(c):
    if c == 'PrimitiveValue::to_multi_str':
        return next(n for n in FNS if n.endswith('::to_multi_str') and 'value::primitive' in n)
    if c.startswith('PrimitiveValue::to_multi_str::seq_to_str::<'):
        return next(n for n in FNS if n.endswith('to_multi_str::seq_to_str'))
    return None
def serialize_value(v, ser, ctx):
    # dispatch <T as Serialize>::serialize on the runtime wrapper type
    if isinstance(v, Str): ser.ev.append(('str', list(v.b))); return Enum('Ok', [None])
    if isinstance(v, Wrapper):
        fn = next(n for n in FNS if n.endswith('::serialize') and ('&' + v.kind + '<') in FNS[n].ptext)
        return run_fn(fn, [Ref(Cell(v)), ser], ctx)
    raise Exception('serialize_value ' + repr(v))
class Wrapper(Struct):
    def __init__(self, kind, inner): Struct.__init__(self, [inner]); self.kind = kind
VRNAMES = ['AE','AS','AT','CS','DA','DS','DT','FL','FD','IS','LO','LT','OB','OD','OF','OL','OV','OW','PN','SH','SL','SQ','SS','ST','SV','TM','UC','UI','UL','UN','UR','US','UT','UV']
GENERICS = []            # stack of explicit generic arguments of the free functions being executed
EXTRA_CONTRACTS = []     # case modules register (callee, args, ctx) -> value | NotImplemented


def call(fr, callee, args, ctx):
    c = callee
    for ex in EXTRA_CONTRACTS:
        r = ex(c, args, ctx)
        if r is not NotImplemented: return r
    x = resolve_cross(c)
    if x: return run_fn(x, args, ctx)
    if c.endswith('_serde::Serializer>::serialize_map'): args[0].ev.append(('map',)); return Enum('Ok', [args[0]])
    if 'as SerializeMap>::serialize_entry::<' in c:
        ser = args[0].get() if isinstance(args[0], Ref) else args[0]
        k = args[1]; ser.ev.append(('key', bytes(k.b).decode()))
        return serialize_value(args[2].get() if isinstance(args[2], Ref) else args[2], ser, ctx)
    if c.endswith('as SerializeMap>::end'): args[0].ev.append(('endmap',)); return Enum('Ok', [None])
    if '_serde::Serializer>::collect_seq::<' in c:
        ser = args[0]; ser.ev.append(('seq',))
        for it in args[1].items: serialize_value(it, ser, ctx)
        ser.ev.append(('endseq',)); return Enum('Ok', [None])
    if c.startswith('DataElement::<') and c.endswith('::vr'): return args[0].get().f[0]
    if c.startswith('DataElement::<') and c.endswith('::value'): return Ref(Cell(args[0].get().f[1]))
    if c == 'VR::to_string': return Str(list(VRNAMES[args[0].idx].encode()))
    m = re.match(r"<(AsStrings|AsNumbers|InlineBinary|AsPersonNames)<'_> as From<&PrimitiveValue>>::from", c)
    if m: return Wrapper(m.group(1), args[0])
    if c.startswith("<Cow<'_, [std::string::String]> as Deref>::deref"): return args[0].get()
    if c == '<I as IntoIterator>::into_iter': return SliceIter([Ref(Cell(e)) for e in args[0].get().items])
    if c.endswith('as Iterator>::collect::<Vec<String>>') or c.endswith('as Iterator>::collect::<Vec<std::string::String>>') or c.endswith('as Iterator>::collect::<Vec<T>>'):
        out = []
        while True:
            item = iter_next(args[0], ctx)
            if item is None: return VecV(out)
            out.append(item)
    if re.fullmatch(r'Vec::<.*>::swap_remove', c):
        v_ = _d(args[0]); i_ = concrete_index(args[1])
        if i_ >= len(v_.items): raise Panic('swap_remove index out of bounds') if 'Panic' in globals() else NotEncodable('swap_remove out of bounds')
        x_ = v_.items[i_]; v_.items[i_] = v_.items[-1]; v_.items.pop()
        return x_
    if c == '<<I as IntoIterator>::Item as ToString>::to_string':
        v = args[0].get(); v = v.get() if isinstance(v, Ref) else v
        if isinstance(v, Struct) and len(v.f) == 2:          # Tag: Display is "(GGGG,EEEE)" upper-case hex (C14 Kani result)
            def hexd(n): return If(ULT(n, 10), n + 48, n + 55)
            def four(x): return [simplify(hexd(ZeroExt(4, Extract(15 - 4*i, 12 - 4*i, x)))) for i in range(4)]
            return Str([ord('(')] + four(v.f[0]) + [ord(',')] + four(v.f[1]) + [ord(')')])
        raise Exception('to_string of ' + repr(v))
    if c.startswith('<once_cell::sync::Lazy<') and c.endswith('as Deref>::deref'): return Ref(Cell(REGISTRY))
    if c == 'String::new': return Str([])
    if 'impl [' in c and c.endswith('::iter'):
        st_, off_ = seq_store(_d(args[0]))
        return SliceIter([Ref(Cell(e)) for e in st_[off_:]])
    if c.endswith('as Iterator>::rev'): return Rev(args[0])
    if c.endswith('as Iterator>::peekable'): return Peekable(args[0])
    if re.match(r'Peekable::<.*>::next_if::', c):
        it, clo = args[0].get(), args[1]
        v = it.peek()
        if v is None: return opt(None)
        r = run_fn(clo.fn, [clo, Ref(Cell(v))], ctx)
        if ctx.branch(r):
            return opt(it.next())
        return opt(None)
    if re.match(r'Peekable::<.*>::peek$', c):
        v = args[0].get().peek(); return opt(None if v is None else Ref(Cell(v)))
    if c.endswith('as Iterator>::next') and 'Split' not in c:
        return opt(args[0].get().next())
    if re.match(r'Option::<.*>::is_some$', c): return option_is_some(_d(args[0]), ctx)
    if re.match(r'Option::<.*>::is_none', c): return not option_is_some(args[0].get(), ctx)
    if c.endswith('as Deref>::deref'): return args[0].get()       # Cow<str> -> &str : same byte string
    if c == 'String::push_str': s = args[0].get(); s.b.extend(args[1].b if isinstance(args[1], Str) else args[1].get().b); return None
    if c == 'String::push': args[0].get().b.append(args[1]); return None
    if c.endswith('impl str>::trim'):
        b = list(args[0].b)
        while b and ctx.branch(is_ws(b[0])): b.pop(0)
        while b and ctx.branch(is_ws(b[-1])): b.pop()
        return Str(b)
    if c.endswith('impl str>::trim_start') or c.endswith('impl str>::trim_end'):
        b = list(_d(args[0]).b)
        if c.endswith('trim_start'):
            while b and ctx.branch(is_ws(b[0])): b.pop(0)
        else:
            while b and ctx.branch(is_ws(b[-1])): b.pop()
        return Str(b)
    if 'impl str>::split::<char>' in c: return SplitIter(args[0], args[1])
    if c.endswith("Split<'_, char> as Iterator>::next"):
        return opt(split_next(args[0].get(), ctx))
    if re.match(r'Option::<&str>::and_then::', c):
        o, clo = args
        if o.variant == 'None': return Enum('None', [])
        return run_fn(clo.fn, [clo, o.f[0]], ctx)
    if c.endswith('impl str>::is_empty'): return len(args[0].b) == 0
    if c.endswith('as Into<Cow<\'_, str>>>::into'): return args[0]
    if re.match(r'HashMap::<&str, .*>::insert', c): args[0].get()[args[1]] = args[2].get(); return None
    if re.match(r'HashMap::<dicom_core::Tag, .*>::insert', c):
        k = args[1]; args[0].get()[(k.f[0].as_long() << 16) | k.f[1].as_long()] = args[2].get(); return None
    if re.match(r'HashSet::<dicom_core::Tag>::insert', c):
        k = args[1]; args[0].get().add((k.f[0].as_long() << 16) | k.f[1].as_long()); return None
    if c == 'TagRange::inner': return args[0].f[0] if args[0].f else Struct([BitVecVal(0,16), BitVecVal(0,16)])
    if c.startswith('<once_cell::sync::Lazy<') and c.endswith('as Deref>::deref'): return Ref(Cell(REGISTRY))   # Lazy = value of its initialiser
    if re.match(r'HashMap::<dicom_core::Tag, .*>::get::<', c):
        k = args[1].get(); key = Concat(k.f[0], k.f[1])
        t = simplify(TREE(key))
        return Enum('Some', [Ref(Cell(('entry', t)))], sym_some=(t != NONE))
    if re.match(r'HashSet::<dicom_core::Tag>::contains::<', c):
        st, k = args[0].get(), args[1].get(); key = Concat(k.f[0], k.f[1])
        return Or([key == BitVecVal(x, 32) for x in sorted(st)]) if st else BoolVal(False)
    if re.match(r'Option::<.*>::or_else::<', c):
        o, clo = args
        if option_is_some(o, ctx): return o
        return run_fn(CLOSURE_OF[id(clo)], [clo], ctx)
    if re.match(r'Option::<.*>::cloned', c):
        o = args[0]
        return o if o.variant == 'None' else Enum('Some', [o.f[0].get()], sym_some=o.sym_some)
    if re.match(r'(std::ops::)?RangeInclusive::<\w+>::new$', c): return (args[0], args[1])
    if re.fullmatch(r'(std::ops::)?RangeInclusive::<(u8|u16|u32|u64|usize)>::contains::<\w+>', c):
        rg = args[0].get() if isinstance(args[0], Ref) else args[0]
        lo, hi = rg; x = args[1].get() if isinstance(args[1], Ref) else args[1]
        return And(UGE(x, lo), ULE(x, hi))
    if c == 'dicom_core::Tag::element': return args[0].f[1]
    if 'impl str>::split_once::<char>' in c:
        b, ch = args[0].b, args[1]
        for i, by in enumerate(b):
            if ctx.branch(by == ch):
                return Enum('Some', [Struct([Str(b[:i]), Str(b[i+1:])])])
        return Enum('None', [])
    if c == '<str as ToString>::to_string': return Str(list(args[0].b))
    if c == '<T as ToString>::to_string':                                               # T = String: Display for String is write_str
        v = args[0].get() if isinstance(args[0], Ref) else args[0]
        return Str(list(v.b))
    if 'impl str>::contains::<char>' in c:
        b, ch = args[0].b, args[1]
        for by in b:
            if ctx.branch(by == ch if not isinstance(by, int) else by == ch): return True
        return False
    if re.match(r'Option::<.*>::filter::<', c):
        o, clo = args
        if o.variant == 'None': return o
        r = run_fn(clo.fn, [clo, Ref(Cell(o.f[0]))], ctx)
        keep = ctx.branch(r) if not isinstance(r, bool) else r
        return o if keep else Enum('None', [])
    if re.match(r'Option::<.*>::map::<', c):
        o, clo = args
        if o.variant == 'None': return o
        return Enum('Some', [run_fn(clo.fn, [clo, o.f[0]], ctx)])
    if c.endswith('Snafu::fail') or 'Snafu::fail::<' in c: return Enum('Err', [('opaque', c)])
    if 'impl str>::parse::<T>' in c: return Enum('Ok', [Str(list(args[0].b))])          # T = String
    if 'as ResultExt<' in c and '>::context::<' in c:
        r = args[0]; return r if r.variant == 'Ok' else Enum('Err', [('opaque', 'context')])
    if c.endswith('as Try>::branch'):
        r = _d(args[0]); return Enum('Continue', [r.f[0]]) if r.variant in ('Ok', 'Some') else Enum('Break', [r])
    if 'as FromResidual<' in c: 
        a = _d(args[0]); return a if isinstance(a, Enum) else Enum('Err', [('opaque', 'residual')])
    if re.search(r'::map_err::<', c): return args[0]
    if c == '<String as Deref>::deref': return args[0].get() if isinstance(args[0], Ref) else args[0]
    if 'impl str>::replace::<char>' in c:
        out = []
        for by in args[0].b:
            if ctx.branch(by == args[1]): out.extend(args[2].b)
            else: out.append(by)
        return Str(out)
    if c == "Formatter::<'_>::write_str":
        args[0].get().b.extend(args[1].b if isinstance(args[1], Str) else args[1].get().b); return Enum('Ok', [None])
    if c in ('<T as std::fmt::Display>::fmt', '<String as std::fmt::Display>::fmt'):                                            # T = String
        args[1].get().b.extend(args[0].get().b); return Enum('Ok', [None])
    if re.match(r'SmallVec::<.*>::is_empty', c): return len(args[0].get().items) == 0
    if re.match(r'<SmallVec<.*> as Deref>::deref', c): return args[0].get()
    m = re.match(r'core::slice::<impl \[(\w+)\]>::iter', c)
    if m:
        st_, off_ = seq_store(_d(args[0])); return SliceIter([Ref(Cell(e)) for e in st_[off_:]])
    if re.search(r'as Iterator>::map::<', c): return MapIter(args[0], args[1])
    if re.search(r'as Iterator>::collect::<std::result::Result<Vec<T>', c):
        out = []
        while True:
            r = iter_next(args[0], ctx)          # the mapped item: a Result
            if r is None: return Enum('Ok', [VecV(out)])
            r = _d(r)
            if r.variant == 'Err': return r
            out.append(r.f[0])
    m = re.match(r'<T as NumCast>::from::<([ui])(\d+)>', c)
    if m: return numcast(args[0], int(m.group(2)), m.group(1) == 'i')
    if re.match(r'Option::<T>::ok_or_else::', c):
        o, clo = args
        if option_is_some(o, ctx): return Enum('Ok', [o.f[0]])
        return Enum('Err', [run_fn(CLOSURE_OF[id(clo)], [clo], ctx)])
    if c == 'Vec::<T>::new': return VecV([])
    if 'as DicomValueType>::value_type' in c or 'as ToString>::to_string' in c or c.endswith('::build') or 'as Into<Box<' in c: return ('opaque', c)
    if c.endswith('as Itertools>::join'):
        it = args[0].get() if isinstance(args[0], Ref) else args[0]
        sep = args[1].get() if isinstance(args[1], Ref) else args[1]
        out, first = [], True
        while True:
            x = iter_next(it, ctx)
            if x is None: return Str(out)
            x = x.get() if isinstance(x, Ref) else x
            if not first: out += list(sep.b)
            out += list(x.b); first = False
    if re.search(r'as Fn(Mut|Once)?<\(.*\)>>::call(_mut|_once)?$', c):
        clo, tup = args[0], _d(args[1])
        target = _d(clo)
        return run_fn(closure_name(target), [clo] + list(tup.f), ctx)
    # ---- generic Option / Result vocabulary (by definition of the std methods)
    mo = re.match(r'(?:std::option::)?Option::<.*>::(copied|cloned|as_ref|as_deref|take|unwrap|expect|unwrap_or|unwrap_or_default|or|ok_or|is_some_and|map_or|unwrap_or_else|and_then|map|filter|or_else|ok_or_else|is_some|is_none)(?:::<.*>)?$', c)
    if mo and isinstance(args[0].get() if isinstance(args[0], Ref) else args[0], Enum):
        meth = mo.group(1)
        o = args[0].get() if isinstance(args[0], Ref) else args[0]
        some = option_is_some(o, ctx)
        def callc(clo, *a):
            return run_fn(closure_name(clo), [clo] + list(a), ctx)
        if meth == 'is_some': return some
        if meth == 'is_none': return not some
        if meth in ('copied', 'cloned', 'as_deref'):
            if not some: return Enum('None', [])
            v = o.f[0]
            return Enum('Some', [v.get() if isinstance(v, Ref) else v])
        if meth == 'as_ref':
            return Enum('Some', [Ref(Cell(o.f[0]))]) if some else Enum('None', [])
        if meth == 'take':
            if isinstance(args[0], Ref): args[0].set(Enum('None', []))
            return Enum('Some', [o.f[0]]) if some else Enum('None', [])
        if meth in ('unwrap', 'expect'):
            if not some: raise NotEncodable('reachable panic: unwrap on None')
            return o.f[0]
        if meth == 'unwrap_or': return o.f[0] if some else args[1]
        if meth == 'or': return Enum('Some', [o.f[0]]) if some else args[1]
        if meth == 'ok_or': return Enum('Ok', [o.f[0]]) if some else Enum('Err', [args[1]])
        if meth == 'unwrap_or_else': return o.f[0] if some else callc(args[1])
        if meth == 'or_else': return Enum('Some', [o.f[0]]) if some else callc(args[1])
        if meth == 'ok_or_else': return Enum('Ok', [o.f[0]]) if some else Enum('Err', [callc(args[1])])
        if meth == 'and_then': return callc(args[1], o.f[0]) if some else Enum('None', [])
        if meth == 'map': return Enum('Some', [callc(args[1], o.f[0])]) if some else Enum('None', [])
        if meth == 'map_or': return callc(args[2], o.f[0]) if some else args[1]
        if meth == 'is_some_and':
            if not some: return False
            r = callc(args[1], o.f[0]); return ctx.branch(r) if not isinstance(r, bool) else r
        if meth == 'filter':
            if not some: return Enum('None', [])
            r = callc(args[1], Ref(Cell(o.f[0]))); keep = ctx.branch(r) if not isinstance(r, bool) else r
            return Enum('Some', [o.f[0]]) if keep else Enum('None', [])
    if re.fullmatch(r'<(S|String|&str|str) as AsRef<(str|\[u8\])>>::as_ref', c): return _d(args[0])
    ma_ = re.fullmatch(r'<&?u(8|16|32|64|size) as (Add|Sub|Mul)<&?u(?:8|16|32|64|size)>>::(add|sub|mul)', c)
    if ma_:
        a, b = _d(args[0]), _d(args[1])
        if isinstance(a, int) and isinstance(b, int): return {'add': a + b, 'sub': a - b, 'mul': a * b}[ma_.group(3)]
        w = (a if not isinstance(a, int) else b).size()
        a = BitVecVal(a, w) if isinstance(a, int) else a
        b = BitVecVal(b, w) if isinstance(b, int) else b
        ea, eb = ZeroExt(w, a), ZeroExt(w, b)
        wide = {'add': ea + eb, 'sub': ea - eb, 'mul': ea * eb}[ma_.group(3)]
        res = Extract(w - 1, 0, wide)
        if ctx.branch(ZeroExt(w, res) != wide): raise NotEncodable('reachable panic: arithmetic overflow in ' + c)
        return res
    msv_ = re.fullmatch(r'(?:smallvec::)?SmallVec::<\[.*; (\d+)\]>::(inline_size|from_vec|new)', c)
    if msv_ and msv_.group(2) == 'inline_size': return int(msv_.group(1))
    if msv_ and msv_.group(2) == 'from_vec': return VecV(list(_d(args[0]).items))
    if re.fullmatch(r'Box::<\[.*; \d+\]>::new_uninit', c):
        # Box<MaybeUninit<[T; N]>> as the MIR sees it: Box{0: Unique{0: NonNull -> MaybeUninit{1: ManuallyDrop{0: MaybeDangling{0: [T; N]}}}}}
        mu = Struct([None, Struct([Struct([None])])])
        return Struct([Struct([Ref(Cell(mu))])])
    if re.fullmatch(r'std::boxed::box_assume_init_into_vec_unsafe::<.*>', c):
        mu = _d(_d(args[0]).f[0].f[0])
        arr = mu.f[1].f[0].f[0]
        return VecV(list(arr.f))
    mr_ = re.fullmatch(r'(?:std::result::)?Result::<.*>::(unwrap|expect|ok|is_ok|is_err|unwrap_or|map|map_err|and_then|unwrap_or_else|or_else)(?:::<.*>)?', c)
    if mr_ and isinstance(_d(args[0]), Enum) and _d(args[0]).variant in ('Ok', 'Err'):
        r_ = _d(args[0]); k_ = mr_.group(1)
        def callr(clo, *a):
            if isinstance(clo, tuple) and clo and clo[0] == 'fnitem':
                mk = re.fullmatch(r'(?:std::result::)?Result::<.*>::(Ok|Err)|(?:std::option::)?Option::<.*>::(Some)', clo[1])
                if mk: return Enum(mk.group(1) or mk.group(2), list(a))        # a variant constructor used as a function
                return call(fr, clo[1], list(a), ctx)
            return run_fn(closure_name(clo), [clo] + list(a), ctx)
        if k_ == 'map': return Enum('Ok', [callr(args[1], r_.f[0])]) if r_.variant == 'Ok' else r_
        if k_ == 'map_err': return Enum('Err', [callr(args[1], r_.f[0])]) if r_.variant == 'Err' else r_
        if k_ == 'and_then': return callr(args[1], r_.f[0]) if r_.variant == 'Ok' else r_
        if k_ == 'unwrap_or_else': return r_.f[0] if r_.variant == 'Ok' else callr(args[1], r_.f[0])
        if k_ == 'or_else': return r_ if r_.variant == 'Ok' else callr(args[1], r_.f[0])
        if k_ in ('unwrap', 'expect'):
            if r_.variant != 'Ok': raise NotEncodable('reachable panic: unwrap on Err')
            return r_.f[0]
        if k_ == 'ok': return Enum('Some', [r_.f[0]]) if r_.variant == 'Ok' else Enum('None', [])
        if k_ == 'is_ok': return r_.variant == 'Ok'
        if k_ == 'is_err': return r_.variant == 'Err'
        if k_ == 'unwrap_or': return r_.f[0] if r_.variant == 'Ok' else args[1]
    mg_ = re.fullmatch(r'core::str::<impl str>::get::<(?:std::ops::)?(RangeFrom|RangeTo|Range)<usize>>', c)
    if mg_:
        s_ = _d(args[0]); r_ = args[1]
        vals = [concrete_index(x) for x in (r_.f if isinstance(r_, Struct) else r_)]
        lo, hi = {'RangeFrom': lambda: (vals[0], len(s_.b)), 'RangeTo': lambda: (0, vals[0]), 'Range': lambda: (vals[0], vals[1])}[mg_.group(1)]()
        if lo > hi or hi > len(s_.b): return Enum('None', [])
        return Enum('Some', [Str(s_.b[lo:hi])])
    msg_ = re.fullmatch(r'core::slice::<impl \[(?:u8|T)\]>::get::<(?:std::ops::)?(RangeFrom|RangeTo|Range)<usize>>', c)
    if msg_:
        s_ = _d(args[0]); r_ = args[1]
        xs_ = s_.b if hasattr(s_, 'b') else s_.items
        vals = [concrete_index(x) for x in (r_.f if isinstance(r_, Struct) else r_)]
        lo, hi = {'RangeFrom': lambda: (vals[0], len(xs_)), 'RangeTo': lambda: (0, vals[0]), 'Range': lambda: (vals[0], vals[1])}[msg_.group(1)]()
        if lo > hi or hi > len(xs_): return Enum('None', [])
        return Enum('Some', [VecV(list(xs_[lo:hi]))])
    mss_ = re.fullmatch(r"core::str::<impl str>::strip_(suffix|prefix)::<(\{closure@.*\}|char)>", c)
    if mss_:
        b = list(_d(args[0]).b)
        if not b: return Enum('None', [])
        ch = b[-1] if mss_.group(1) == 'suffix' else b[0]
        if mss_.group(2) == 'char':
            r = (ch == args[1])
        else:
            chw = ch if isinstance(ch, int) or ch.size() >= 32 else ZeroExt(32 - ch.size(), ch)
            r = run_fn(closure_name(args[1]), [Ref(Cell(args[1])), chw], ctx)
        ok = r if isinstance(r, bool) else ctx.branch(r)
        if not ok: return Enum('None', [])
        return Enum('Some', [Str(b[:-1] if mss_.group(1) == 'suffix' else b[1:])])
    if re.fullmatch(r"core::str::<impl str>::match_indices::<char>", c):
        b = list(_d(args[0]).b); out = []
        for i_, x in enumerate(b):
            hit = (x == args[1]) if isinstance(x, int) and isinstance(args[1], int) else ctx.branch(x == args[1])
            if hit: out.append(Struct([i_, Str([x])]))
        return SliceIter(out)
    mt_ = re.fullmatch(r"core::str::<impl str>::trim_(end|start)_matches::<\{closure@.*\}>", c)
    if mt_:
        b = list(_d(args[0]).b); clo = args[1]
        while b:
            ch = b[-1] if mt_.group(1) == 'end' else b[0]
            if not isinstance(ch, int) and ch.size() < 32: ch = ZeroExt(32 - ch.size(), ch)
            r = run_fn(closure_name(clo), [Ref(Cell(clo)), ch], ctx)
            if not (r if isinstance(r, bool) else ctx.branch(r)): break
            if mt_.group(1) == 'end': b.pop()
            else: b.pop(0)
        return Str(b)
    if c in ('core::char::methods::<impl char>::is_whitespace', 'char::is_whitespace', 'char::methods::<impl char>::is_whitespace'):
        ch = args[0]
        if isinstance(ch, int): return ch in (0x20, 0x09, 0x0A, 0x0B, 0x0C, 0x0D, 0x85, 0xA0)
        return Or(ch == 0x20, And(UGE(ch, 9), ULE(ch, 13)), ch == 0x85, ch == 0xA0)
    msat_ = re.fullmatch(r'core::num::<impl (usize|u8|u16|u32|u64)>::saturating_(sub|add)', c)
    if msat_:
        a, b = args[0], args[1]
        if isinstance(a, int) and isinstance(b, int):
            return max(0, a - b) if msat_.group(2) == 'sub' else a + b
        w = (a if not isinstance(a, int) else b).size()
        a = BitVecVal(a, w) if isinstance(a, int) else a
        b = BitVecVal(b, w) if isinstance(b, int) else b
        if msat_.group(2) == 'sub': return If(ULT(a, b), BitVecVal(0, w), a - b)
        return If(ULT(a + b, a), BitVecVal((1 << w) - 1, w), a + b)
    mab_ = re.fullmatch(r'core::num::<impl i(8|16|32|64)>::(abs|unsigned_abs)', c)
    if mab_:
        a = args[0]
        if isinstance(a, int): return abs(a)
        if mab_.group(2) == 'abs' and ctx.branch(a == BitVecVal(1 << (a.size() - 1), a.size())): raise NotEncodable('reachable panic: attempt to negate with overflow (abs)')
        return If(a < 0, -a, a)
    me_ = re.fullmatch(r'core::num::<impl i(8|16|32|64)>::(rem_euclid|div_euclid)', c)
    if me_:
        a, b = args[0], args[1]
        if isinstance(a, int) and isinstance(b, int):
            if b == 0: raise NotEncodable('reachable division by zero')
            r = a % abs(b)
            return r if me_.group(2) == 'rem_euclid' else (a - r) // b
        w = int(me_.group(1))
        if not isinstance(b, int):
            b = simplify(b)
            if not is_bv_value(b): raise NotEncodable('euclidean division by a symbolic divisor')
            b = b.as_signed_long()
        if b <= 0: raise NotEncodable('euclidean division by a non-positive constant')
        a = BitVecVal(a, w) if isinstance(a, int) else a
        bv = BitVecVal(b, w)
        r = SRem(a, bv)
        if me_.group(2) == 'rem_euclid': return If(r < 0, r + bv, r)
        return If(r < 0, a / bv - 1, a / bv)
    mp_ = re.fullmatch(r'core::num::<impl u(8|16|32|64)>::pow', c)
    if mp_:
        w = int(mp_.group(1)); base, ex = args[0], args[1]
        if not isinstance(base, int):
            base = simplify(base)
            if not is_bv_value(base): raise NotEncodable('pow with a symbolic base')
            base = base.as_long()
        if not isinstance(ex, int):
            ex = simplify(ex)
            if is_bv_value(ex): ex = ex.as_long()
        if not isinstance(ex, int):
            k = 0
            while True:
                if base ** k >= (1 << w): raise NotEncodable('reachable panic: attempt to multiply with overflow in pow')
                if ctx.branch(ex == k): ex = k; break
                k += 1
        if base ** ex >= (1 << w): raise NotEncodable('reachable panic: attempt to multiply with overflow in pow')
        return BitVecVal(base ** ex, w)
    mi2 = re.fullmatch(r'<(T|u8|u16|u32) as Into<u(16|32|64)>>::into|<u(?:16|32|64) as From<(u8|u16|u32)>>::from', c)
    if mi2 and is_expr(args[0]) and is_bv(args[0]):
        w = int(mi2.group(2) or re.search(r'<u(\d+) as From', c).group(1))
        return ZeroExt(w - args[0].size(), args[0]) if args[0].size() < w else args[0]
    mi_ = re.fullmatch(r'<T as Into<(?:\w+::)*(\w+)>>::into', c)
    if mi_ and GENERICS and GENERICS[-1] and GENERICS[-1][0].split('::')[-1] == mi_.group(1): return args[0]
    if c in ('core::str::<impl str>::as_bytes', 'String::as_bytes', 'std::string::String::as_bytes'): return _d(args[0])
    ms = re.match(r'core::slice::<impl \[.*\]>::(is_empty|len|iter|first|last)$', c)
    if ms:
        v = _d(args[0]); xs = seq_store(v); xs = xs[0][xs[1]:]
        k = ms.group(1)
        if k == 'is_empty': return len(xs) == 0
        if k == 'len': return len(xs)
        if k == 'iter': return SliceIter([Ref(Cell(e)) for e in xs])
        if k == 'first': return opt(Ref(Cell(xs[0])) if xs else None)
        if k == 'last': return opt(Ref(Cell(xs[-1])) if xs else None)
    if re.match(r'(Vec|SmallVec)::<.*>::(new|with_capacity)$', c): return VecV([])
    if re.match(r'(Vec|SmallVec)::<.*>::is_empty$', c): return len(_d(args[0]).items) == 0
    if re.match(r'(Vec|SmallVec)::<.*>::push$', c): _d(args[0]).items.append(args[1]); return None
    if re.match(r'(Vec|SmallVec)::<.*>::pop$', c):
        xs = _d(args[0]).items
        return Enum('Some', [xs.pop()]) if xs else Enum('None', [])
    if re.match(r'(Vec|SmallVec)::<.*>::clear$', c): del _d(args[0]).items[:]; return None
    if re.match(r'Vec::<.*>::append$', c):
        dst, src = _d(args[0]), _d(args[1]); dst.items.extend(src.items); src.items = []; return None
    if re.match(r'SmallVec::<.*>::from_vec$', c): return args[0]
    if re.match(r'<Vec<.*> as IntoIterator>::into_iter$', c): return SliceIter(list(_d(args[0]).items))
    if re.match(r'<&(mut )?(\[.*\]|Vec<.*>|SmallVec<.*>) as IntoIterator>::into_iter$', c):
        v = _d(args[0]); xs = v.items if isinstance(v, VecV) else v.f
        return SliceIter([Ref(Cell(e)) for e in xs])
    if re.match(r'<std::slice::Iter<.*> as Iterator>::next$', c): return opt(_d(args[0]).next())
    if re.match(r'<Vec<.*> as Deref>::deref$', c): return _d(args[0])
    if c.endswith('as Iterator>::enumerate'): return EnumerateIter(args[0])
    if re.match(r'<Enumerate<.*> as IntoIterator>::into_iter$', c): return args[0]
    if re.match(r'<Enumerate<.*> as Iterator>::next$', c):
        it = _d(args[0]); x = it.it.next()
        if x is None: return opt(None)
        it.i += 1
        return opt(Struct([it.i - 1, x]))
    mi = re.search(r'as (?:DoubleEnded)?Iterator>::(position|rposition|any|all|find|find_map|count|last|nth|skip|take|filter|filter_map|rev|zip|chain|cloned|copied|for_each|max|min|sum|flatten)(?:::<.*>)?$', c)
    if mi:
        meth = mi.group(1)
        it = _d(args[0])
        def items():
            out = []
            while True:
                x = iter_next(it, ctx)
                if x is None: return out
                out.append(x)
        def truth(r): return ctx.branch(r) if not isinstance(r, bool) else r
        def callc(clo, *a):
            if isinstance(clo, tuple) and clo and clo[0] == 'fnitem': return call(fr, clo[1], list(a), ctx)       # a function item used as the predicate / mapper
            return run_fn(closure_name(clo), [clo] + list(a), ctx)
        if meth == 'count': return len(items())
        if meth == 'last':
            xs = items(); return opt(xs[-1] if xs else None)
        if meth in ('position', 'rposition'):
            xs = items(); idx = list(range(len(xs)))
            if meth == 'rposition': idx.reverse()
            for k in idx:
                if truth(callc(args[1], xs[k])): return Enum('Some', [k])
            return Enum('None', [])
        if meth in ('any', 'all'):
            for x in items():
                t = truth(callc(args[1], x))
                if meth == 'any' and t: return True
                if meth == 'all' and not t: return False
            return meth == 'all'
        if meth == 'find':
            for x in items():
                if truth(callc(args[1], Ref(Cell(x)))): return Enum('Some', [x])
            return Enum('None', [])
        if meth == 'find_map':
            for x in items():
                r = callc(args[1], x)
                if option_is_some(r, ctx): return r
            return Enum('None', [])
        if meth == 'nth':
            xs = items(); n_ = args[1]; return opt(xs[n_] if n_ < len(xs) else None)
        if meth == 'skip': return SliceIter(items()[args[1]:])
        if meth == 'take': return SliceIter(items()[:args[1]])
        if meth == 'rev': return Rev(it)
        if meth in ('cloned', 'copied'): return SliceIter([_d(x) for x in items()])
        if meth == 'filter': return SliceIter([x for x in items() if truth(callc(args[1], Ref(Cell(x))))])
        if meth == 'flatten':       # over Options (Some(x) -> x, None -> nothing) or nested sequences
            out = []
            for x in items():
                v = _d(x)
                if isinstance(v, Enum) and v.variant in ('Some', 'None'):
                    if option_is_some(v, ctx): out.append(v.f[0])
                else:
                    st_, off_ = seq_store(v); out.extend(st_[off_:])
            return SliceIter(out)
        if meth == 'filter_map':
            out = []
            for x in items():
                r = callc(args[1], x)
                if option_is_some(r, ctx): out.append(r.f[0])
            return SliceIter(out)
        if meth == 'zip':
            a_, b_ = items(), []
            other = _d(args[1])
            while True:
                y = iter_next(other, ctx)
                if y is None: break
                b_.append(y)
            return SliceIter([Struct([p, q]) for p, q in zip(a_, b_)])
        if meth == 'chain':
            a_ = items(); other = _d(args[1]); b_ = []
            while True:
                y = iter_next(other, ctx)
                if y is None: break
                b_.append(y)
            return SliceIter(a_ + b_)
        if meth == 'for_each':
            for x in items(): callc(args[1], x)
            return None
        if meth == 'sum':
            acc = None
            for x in items():
                x = _d(x)
                acc = x if acc is None else acc + x
            if acc is None:
                mt = re.search(r'sum::<([ui])(\d+)>', c)
                return BitVecVal(0, int(mt.group(2))) if mt else 0
            return acc
        raise NotEncodable('iterator adapter ' + meth)
    if re.search(r'impl str>::repeat$', c):
        b_, n_ = _d(args[0]).b, args[1]
        if not isinstance(n_, int): raise NotEncodable('str::repeat with a symbolic count')
        return Str(list(b_) * n_)
    if re.match(r'String::with_capacity$', c): return Str([])
    if re.match(r'String::len$', c) or re.search(r'impl str>::len$', c): return len(_d(args[0]).b)
    if re.match(r'String::is_empty$', c): return len(_d(args[0]).b) == 0
    if re.match(r'String::pop$', c):
        s_ = _d(args[0])
        return opt(s_.b.pop() if s_.b else None)
    if re.search(r'impl str>::(ends_with|starts_with)::<char>$', c):
        b_, ch = _d(args[0]).b, args[1]
        if not b_: return False
        x = b_[-1] if 'ends_with' in c else b_[0]
        return (x == ch) if isinstance(x, int) else ctx.branch(x == ch)
    mi = re.match(r'<\[(.*)\] as Index<(?:std::ops::)?(RangeInclusive|Range|RangeFrom|RangeTo)<usize>>>::index$', c) or re.match(r'core::slice::index::<impl Index<(?:std::ops::)?(RangeInclusive|Range|RangeFrom|RangeTo)<usize>> for \[(.*)\]>::index$', c)
    if mi:
        seq = _d(args[0]); rg = _d(args[1])
        st_, off_ = seq_store(seq); xs = st_[off_:]
        kind = 'RangeInclusive' if 'RangeInclusive' in c else ('RangeFrom' if 'RangeFrom' in c else ('RangeTo' if 'RangeTo' in c else 'Range'))
        vals = list(rg) if isinstance(rg, tuple) else list(rg.f)
        if kind == 'RangeInclusive': lo, hi = vals[0], vals[1] + 1
        elif kind == 'Range': lo, hi = vals[0], vals[1]
        elif kind == 'RangeFrom': lo, hi = vals[0], len(xs)
        else: lo, hi = 0, vals[0]
        lo, hi = concrete_index(lo), concrete_index(hi)
        if lo > hi or hi > len(xs): raise NotEncodable('reachable panic: slice index out of range')
        return Str(list(xs[lo:hi])) if isinstance(seq, Str) else VecV(list(xs[lo:hi]))
    if re.search(r'as Iterator>::fold::<', c):
        it, acc, clo = args
        while True:
            x = iter_next(it, ctx)
            if x is None: return acc
            acc = run_fn(closure_name(clo), [clo, acc, x], ctx)
    if re.match(r'Vec::<u8>::len$', c):
        v = _d(args[0])
        return v.length if isinstance(v, AbstractBytes) else len(v.items)
    if re.match(r'SmallVec::<.*>::len$', c) or re.match(r'Vec::<.*>::len$', c): return len(args[0].get().items)
    if re.match(r'<SmallVec<.*> as Index<usize>>::index', c) or re.match(r'<Vec<.*> as Index<usize>>::index', c):
        return Ref(Cell(args[0].get().items[args[1] if isinstance(args[1], int) else args[1].as_long()]))
    if 'impl str>::trim_end_matches::<[char; 2]>' in c or 'impl str>::trim_end_matches::<[char; 2_usize]>' in c:
        s_, pats = args[0], args[1]
        s_ = s_.get() if isinstance(s_, Ref) else s_
        chars = [p for p in (pats.f if isinstance(pats, Struct) else pats)]
        b = list(s_.b)
        while b and ctx.branch(Or([b[-1] == ch for ch in chars]) if not isinstance(b[-1], int) else (b[-1] in chars)): b.pop()
        return Str(b)
    if re.match(r"<Cow<'_, str> as From<&str>>::from", c) or re.match(r"<Cow<'_, str> as From<String>>::from", c): return args[0]
    if re.match(r"<Cow<'_, str> as Deref>::deref", c): return args[0].get() if isinstance(args[0], Ref) else args[0]
    if re.match(r"<String as Deref>::deref", c) or c in ('std::string::String::as_str', 'String::as_str'): return args[0].get() if isinstance(args[0], Ref) else args[0]
    if c == '<str as ToOwned>::to_owned' or c == '<String as Clone>::clone': 
        v = args[0].get() if isinstance(args[0], Ref) else args[0]
        return Str(list(v.b))
    m = re.fullmatch(r'(?:\w+::)*(\w+)(?:::<[^>]*>)?::(\w+)(?:::<(.*)>)?', c)
    if not m and not c.startswith('<'):
        # Type::<nested<generics>>::method[::<generics>]: drop the type's balanced generic arguments and try again
        depth, out, i = 0, '', 0
        segs = split_path(c)
        if len(segs) >= 2 and re.fullmatch(r'\w+', segs[-1][0]) and re.fullmatch(r'\w+', segs[-2][0]):
            m = re.fullmatch(r'(\w+)::(\w+)(?:::<(.*)>)?', segs[-2][0] + '::' + segs[-1][0] + ('::<' + segs[-1][1] + '>' if segs[-1][1] else ''))
    if m and (c.startswith(('core::', 'std::', 'alloc::')) and '<impl ' in c): m = None       # inherent impls of std types are contracts, never resolved by name
    if m:      # inherent method written Type::method: resolve to the impl fn with that receiver type
        ty, meth = m.group(1), m.group(2)
        cands = [n for n, f in FNS.items() if n.endswith('::' + meth) and '<impl at' in n and re.match(r'_1: &?(mut )?(?:\w+::)*%s\b' % re.escape(ty), f.ptext)]
        if len(cands) > 1: cands = [n for n in cands if FNS[n].params == len(args)]
        if len(cands) != 1:    # associated function without a receiver (constructor): resolve by the result type
            cands = [n for n, f in FNS.items() if n.endswith('::' + meth) and '<impl at' in n and re.fullmatch(r'(?:(?:std::result::|core::result::)?Result<|(?:std::option::)?Option<)?(?:\w+::)*%s(<.*>)?(,.*>|>)?' % re.escape(ty), f.ret.strip())
                     and len(args) == f.params]
        if len(cands) != 1 and '<impl ' not in c and not c.startswith(('core::', 'std::', 'alloc::')):    # associated function whose name and arity are unique among the impl blocks of the dumped crates
            cands = [n for n, f in FNS.items() if n.endswith('>::' + meth) and '<impl at' in n and f.params == len(args)]
        if len(cands) == 1:
            GENERICS.append(subst_generics(split_top(m.group(3)) if m.group(3) else []))
            try: return run_fn(cands[0], args, ctx)
            finally: GENERICS.pop()
    if c.startswith('<Self as ') and SELF_TYPES:
        return call(fr, '<' + SELF_TYPES[-1] + c[5:], args, ctx)
    m = re.fullmatch(r'<(.+) as (\w+)(<.*>)?>::(\w+)(?:::<.*>)?', c)
    if m:      # trait method call on a type of the dumped crates: resolve to the impl fn by receiver / result type
        norm = lambda t: re.sub(r"<'_>|'_ |'\w+ ", '', t).strip()
        ty, meth = norm(m.group(1)), m.group(4)
        cands = [n for n, f in FNS.items() if n.endswith('::' + meth) and '<impl at' in n and
                 (norm(f.ret) == ty or re.match(r'_1: &?(mut )?%s(?![\w<])' % re.escape(ty), norm(f.ptext)))]
        if len(cands) == 1: return run_fn(cands[0], args, ctx)
        if not cands and re.fullmatch(r'(\w+::)+\w+', ty):
            short = ty.split('::')[-1]
            cands = [n for n, f in FNS.items() if n.endswith('::' + meth) and '<impl at' in n and
                     re.match(r'_1: &?(mut )?(?:\w+::)*%s(?![\w<])' % re.escape(short), norm(f.ptext))]
            if meth in ('eq', 'ne', 'cmp', 'partial_cmp'):
                cands = [n for n in cands if re.search(r'_2: &?(?:\w+::)*%s(?![\w<])' % re.escape(short), norm(FNS[n].ptext))]
            if len(cands) == 1: return run_fn(cands[0], args, ctx)
        if not cands:     # provided (default) method of the trait, executed with Self = the receiver type
            dn = m.group(2) + '::' + meth
            dflt = [n for n in FNS if n == dn or n.endswith('::' + dn)]
            if len(dflt) == 1:
                SELF_TYPES.append(m.group(1))
                try: return run_fn(dflt[0], args, ctx)
                finally: SELF_TYPES.pop()
    m = re.fullmatch(r'((?:\w+::)*\w+)(?:::<(.*)>)?', c)
    if m:      # free function of the dumped crates called with explicit generic arguments
        nm = m.group(1)
        cands = [n for n in FNS if n == nm or n.endswith('::' + nm)]
        if len(cands) == 1:
            GENERICS.append(subst_generics(split_top(m.group(2)) if m.group(2) else []))
            try: return run_fn(cands[0], args, ctx)
            finally: GENERICS.pop()
    raise NotEncodable('no contract for ' + c)

def parse_call(st):
    m = re.fullmatch(r'(.+?) = (.+\)) -> \[return: (bb\d+).*\]', st)
    if not m: return None
    dst, body, nxt = m.group(1), m.group(2), m.group(3)
    depth = 0
    for i in range(len(body) - 1, -1, -1):
        if body[i] == ')': depth += 1
        elif body[i] == '(':
            depth -= 1
            if depth == 0:
                callee, argtxt = body[:i].strip(), body[i+1:-1]
                if not re.match(r'^[A-Za-z<]', callee) or callee.startswith(('move ', 'copy ')): return None
                if callee == 'discriminant' or re.fullmatch(r'Option::<.*>::(Some|None)', callee) or re.fullmatch(r'std::result::Result::<.*>::(Ok|Err)', callee): return None
                return dst, callee, argtxt, nxt
    return None
# ---------------------------------------------------------------- running a function
def run_fn(name, args, ctx, depth=0):
    CURRENT_FN.append(FNS[name])
    try:
        return run_fn_(name, args, ctx, depth)
    except (Fork, ReachablePanic):
        raise
    except Exception as ex:
        if os.environ.get('MDEBUG') and not getattr(ex, '_shown', False):
            ex._shown = True
            sys.stderr.write('MDEBUG in %s at: %s\n' % (name, LAST_STMT[0]))
        raise
    finally:
        CURRENT_FN.pop()
def run_fn_(name, args, ctx, depth=0):
    fn = FNS[name]
    fr = Frame()
    for i, a in enumerate(args): fr.cell(i + 1).v = a
    bb = 'bb0'
    for _ in range(2000):
        stmts = fn.blocks[bb]
        nxt = None
        for st in stmts:
            st = st.rstrip(';')
            LAST_STMT[0] = st
            if st.startswith(('StorageLive', 'StorageDead', 'nop', 'FakeRead', 'PlaceMention', 'Retag')): continue
            if st == 'return': return fr.cell(0).v
            m = re.fullmatch(r'goto -> (bb\d+)', st)
            if m: nxt = m.group(1); break
            m = re.fullmatch(r'drop\(.*\) -> \[return: (bb\d+).*\]', st)
            if m: nxt = m.group(1); break
            m = re.fullmatch(r'assert\((!?)(.*?), ".*\) -> \[success: (bb\d+).*\]', st)
            if m:
                cv = eval_operand(fr, m.group(2), ctx)
                cv = bool(cv) if isinstance(cv, (bool, int)) else ctx.branch(cv)
                ok = (not cv) if m.group(1) else cv
                if not ok: raise NotEncodable('reachable panic: ' + st[:100])
                nxt = m.group(3); break
            m = re.fullmatch(r'switchInt\((.*)\) -> \[(.*)\]', st)
            if m:
                v = eval_operand(fr, m.group(1), ctx)
                targets = [t.split(': ') for t in split_top(m.group(2))]
                if isinstance(v, tuple) and v[0] == 'disc':   # enum discriminant
                    val = disc_value(v[1], ctx)
                elif isinstance(v, bool): val = int(v)
                elif is_expr(v) and is_bool(v): val = int(ctx.branch(v))
                else: val = v
                nxt = next((t for k, t in targets if k != 'otherwise' and int(k) == val), None) or dict(targets)['otherwise']
                break
            mp = re.search(r'= (?:core|std)::panicking::(\w+)(?:::<.*?>)?\((.*)\) -> (?:unwind|bb\d+)', st)
            if mp and '[return' not in st:
                raise ReachablePanic('%s(%s)' % (mp.group(1), mp.group(2)[:120]))
            m = parse_call(st)
            if m:
                dst, callee, argtxt, nxt = m
                argv = [eval_operand(fr, a, ctx) for a in split_top(argtxt)]
                r = NotImplemented
                if callee in FNS or re.sub(r"::<'_>", '', callee) in FNS:
                    for ex in EXTRA_CONTRACTS:          # a case may replace a function of the dumped crates by a contract
                        r = ex(callee, argv, ctx)
                        if r is not NotImplemented: break
                    if r is NotImplemented:
                        r = run_fn(callee if callee in FNS else re.sub(r"::<'_>", '', callee), argv, ctx, depth + 1)
                else:
                    r = call(fr, callee, argv, ctx)
                fr.ref(parse_place(dst)).set(r)
                break
            m = re.fullmatch(r'(.+?) = (.+)', st)
            if m:
                fr.ref(parse_place(m.group(1))).set(eval_rvalue(fr, m.group(2), ctx)); continue
            raise Exception('stmt? ' + st)
        bb = nxt
    raise Exception('step limit')


# ---------------------------------------------------------------- exploration
def dec_prefix(ctx): return ctx.dec[:ctx.i]

STATICS, PROMOTED = {}, {}
REGISTRY = None
TREE = None
NONE = IntVal(-1)
STATS = {'queries': 0, 'solver_s': 0.0}


def explore(build, want_witness=True, max_paths=4000):
    """run `build(ctx)` (which returns the NEGATED property as a z3 Bool) on every feasible path.
    returns dict(paths, violation=(model, path_index)|None, witnesses=[model per path], time)"""
    solver = Solver(); paths = 0; t0 = time.time(); viol = None; wit = []
    stack = [[]]
    while stack:
        dec = stack.pop()
        ctx = Ctx(solver, list(dec))
        try:
            res = build(ctx)
        except Fork:
            stack.append(dec_prefix(ctx) + [True])
            stack.append(dec_prefix(ctx) + [False])
            continue
        paths += 1
        if paths > max_paths: raise NotEncodable('path limit')
        bad = res
        solver.push(); solver.add(ctx.pc + [bad]); t1 = time.time(); r = solver.check(); STATS['queries'] += 1; STATS['solver_s'] += time.time() - t1
        if r == sat:
            viol = (solver.model(), paths - 1, ctx); solver.pop(); break
        if r != unsat:
            solver.pop(); raise NotEncodable('solver answered %s on the negated property' % r)
        solver.pop()
        if want_witness:
            solver.push(); solver.add(ctx.pc); t1 = time.time(); r = solver.check(); STATS['queries'] += 1; STATS['solver_s'] += time.time() - t1
            if r == sat: wit.append((solver.model(), ctx))
            solver.pop()
    return {'paths': paths, 'violation': viol, 'witnesses': wit, 'time': time.time() - t0}
