"""Build and talk to the native oracle binary (real dicom-rs functions, normal build of /repo)."""
import fcntl, os, shutil, subprocess, time

VERIF = os.path.dirname(os.path.dirname(os.path.abspath(__file__)))
REPO = os.environ.get("VERIF_REPO", "/repo")
BUILD = os.environ.get("VERIF_BUILD", os.path.join(VERIF, ".build"))


class Native:
    def __init__(self, name="native"):
        self.name = name
        src = os.path.join(VERIF, "enginem", name)
        root = os.path.join(BUILD, name)
        crate = os.path.join(root, "crate")
        os.makedirs(crate, exist_ok=True)
        t0 = time.time()
        with open(os.path.join(root, ".lock"), "w") as lk:
            fcntl.flock(lk, fcntl.LOCK_EX)
            if os.path.isdir(os.path.join(crate, "src")):
                shutil.rmtree(os.path.join(crate, "src"))
            shutil.copytree(os.path.join(src, "src"), os.path.join(crate, "src"))
            toml = open(os.path.join(src, "Cargo.toml.in")).read().replace("@REPO@", REPO).replace("@VERIF@", VERIF)
            p = os.path.join(crate, "Cargo.toml")
            if not os.path.exists(p) or open(p).read() != toml:
                open(p, "w").write(toml)
            if not os.path.exists(os.path.join(crate, "Cargo.lock")):
                shutil.copy(os.path.join(REPO, "Cargo.lock"), os.path.join(crate, "Cargo.lock"))
            env = dict(os.environ)
            env["CARGO_NET_OFFLINE"] = "true"
            env["CARGO_TARGET_DIR"] = os.path.join(root, "target")
            env.pop("RUSTUP_TOOLCHAIN", None)
            r = subprocess.run(["cargo", "build", "--offline"], cwd=crate, env=env, stdout=subprocess.PIPE, stderr=subprocess.STDOUT, text=True)
            if r.returncode != 0:
                raise RuntimeError("native oracle build failed: " + r.stdout[-1500:])
            # private copy of the binary so that a concurrent rebuild cannot swap it under us
            self.bin = os.path.join(root, "vm-native-%d" % os.getpid())
            shutil.copy(os.path.join(root, "target", "debug", "vm-" + name), self.bin)
        self.build_s = time.time() - t0
        self.p = subprocess.Popen([self.bin], stdin=subprocess.PIPE, stdout=subprocess.PIPE, stderr=subprocess.DEVNULL, text=True, bufsize=1, env=dict(os.environ, RUST_BACKTRACE="0"))
        self.calls = 0

    def ask(self, *words):
        self.p.stdin.write(" ".join(str(w) for w in words) + "\n")
        self.p.stdin.flush()
        self.calls += 1
        return self.p.stdout.readline().rstrip("\n")

    def close(self):
        try:
            self.p.stdin.close()
            self.p.wait(timeout=5)
        except Exception:
            self.p.kill()
        try:
            os.remove(self.bin)
        except OSError:
            pass
