//! Native oracle for the pixel-data kernels (real dicom-pixeldata code, normal build of /repo).
use dicom_pixeldata::{Lut, Rescale, VoiLutFunction, WindowLevel, WindowLevelTransform};
use std::io::{BufRead, Write};

fn f(s: &str) -> f64 {
    f64::from_bits(u64::from_str_radix(s, 16).unwrap())
}
fn func(s: &str) -> VoiLutFunction {
    match s {
        "linear" => VoiLutFunction::Linear,
        "exact" => VoiLutFunction::LinearExact,
        _ => VoiLutFunction::Sigmoid,
    }
}
fn main() {
    let stdin = std::io::stdin();
    let out = std::io::stdout();
    let mut out = out.lock();
    for line in stdin.lock().lines() {
        let line = line.unwrap();
        let a: Vec<&str> = line.split_whitespace().collect();
        if a.is_empty() {
            continue;
        }
        let ans = std::panic::catch_unwind(|| answer(&a)).unwrap_or_else(|_| "PANIC".to_string());
        writeln!(out, "{}", ans).unwrap();
        out.flush().unwrap();
    }
}
fn answer(a: &[&str]) -> String {
    match a[0] {
        // rescale slope intercept x  (f64 bit patterns in hex) -> bits of the result
        "rescale" => format!("{:016x}", Rescale::new(f(a[1]), f(a[2])).apply(f(a[3])).to_bits()),
        // wl <linear|exact|sigmoid> width center x ymax -> bits
        "wl" => {
            let t = WindowLevelTransform::new(func(a[1]), WindowLevel { width: f(a[2]), center: f(a[3]) });
            format!("{:016x}", t.apply(f(a[4]), f(a[5])).to_bits())
        }
        // lut <u8|u16> <bits_stored> <signed 0|1> slope intercept <fn> width center sample -> value | ERR
        "lut" => {
            let bits: u16 = a[2].parse().unwrap();
            let signed = a[3] == "1";
            let rescale = Rescale::new(f(a[4]), f(a[5]));
            let voi = WindowLevelTransform::new(func(a[6]), WindowLevel { width: f(a[7]), center: f(a[8]) });
            let sample: u16 = a[9].parse().unwrap();
            match a[1] {
                "u8" => match Lut::<u8>::new_rescale_and_window(bits, signed, rescale, voi) { Ok(l) => l.get(sample).to_string(), Err(_) => "ERR".into() },
                "u8x" => match Lut::new_rescale_and_window_8bit(bits, signed, rescale, voi) { Ok(l) => l.get(sample).to_string(), Err(_) => "ERR".into() },
                "u16" => match Lut::<u16>::new_rescale_and_window(bits, signed, rescale, voi) { Ok(l) => l.get(sample).to_string(), Err(_) => "ERR".into() },
                _ => "BADCMD".into(),
            }
        }
        // lutr <i16|u16|f64...> default pipeline (rescale only): lutr <ty> bits signed slope intercept sample
        "lutr" => {
            let bits: u16 = a[2].parse().unwrap();
            let signed = a[3] == "1";
            let rescale = Rescale::new(f(a[4]), f(a[5]));
            let sample: u16 = a[6].parse().unwrap();
            match a[1] {
                "i16" => match Lut::<i16>::new_rescale(bits, signed, rescale) { Ok(l) => l.get(sample).to_string(), Err(_) => "ERR".into() },
                "u16" => match Lut::<u16>::new_rescale(bits, signed, rescale) { Ok(l) => l.get(sample).to_string(), Err(_) => "ERR".into() },
                "i32" => match Lut::<i32>::new_rescale(bits, signed, rescale) { Ok(l) => l.get(sample).to_string(), Err(_) => "ERR".into() },
                _ => "BADCMD".into(),
            }
        }
        _ => "BADCMD".into(),
    }
}
