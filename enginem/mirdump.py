"""Dump the MIR of a workspace crate from /repo's CURRENT working tree with the installed nightly."""
import fcntl, glob, os, shutil, subprocess, time

VERIF = os.path.dirname(os.path.dirname(os.path.abspath(__file__)))
REPO = os.environ.get("VERIF_REPO", "/repo")
BUILD = os.environ.get("VERIF_BUILD", os.path.join(VERIF, ".build"))


def dump(pkg, features=None, no_default=False):
    """returns (path, seconds). pkg e.g. 'dicom-core'."""
    os.makedirs(os.path.join(BUILD, "mir"), exist_ok=True)
    target = os.path.join(BUILD, "mir-target")
    os.makedirs(target, exist_ok=True)
    out = os.path.join(BUILD, "mir", "%s-%d.mir" % (pkg, os.getpid()))
    t0 = time.time()
    with open(os.path.join(BUILD, "mir", ".lock"), "w") as lk:
        fcntl.flock(lk, fcntl.LOCK_EX)
        # force rustc to run again (a fresh crate prints nothing)
        for d in glob.glob(os.path.join(target, "debug", ".fingerprint", pkg + "-*")):
            shutil.rmtree(d, ignore_errors=True)
        env = dict(os.environ)
        env["CARGO_TARGET_DIR"] = target
        env["CARGO_NET_OFFLINE"] = "true"
        env.pop("RUSTUP_TOOLCHAIN", None)
        cmd = ["cargo", "+nightly", "rustc", "--offline", "-p", pkg, "--lib"]
        if no_default:
            cmd.append("--no-default-features")
        if features:
            cmd += ["--features", features]
        cmd += ["--", "-Zunpretty=mir", "-C", "debug-assertions=off", "-C", "overflow-checks=on"]
        with open(out, "w") as f:
            p = subprocess.run(cmd, cwd=REPO, env=env, stdout=f, stderr=subprocess.PIPE, text=True)
        if p.returncode != 0 or os.path.getsize(out) == 0:
            raise RuntimeError("MIR dump of %s failed: %s" % (pkg, p.stderr[-600:]))
    return out, time.time() - t0
