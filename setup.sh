#!/bin/bash
# Run once after a fresh restore (offline). Builds nothing that depends on /repo's contents:
# checks the tools and warms the Kani build of the harness crates' dependencies.
set -e
cd "$(dirname "$0")"
export CARGO_NET_OFFLINE=true
command -v cargo-kani >/dev/null || { echo "cargo-kani missing"; exit 1; }
command -v cbmc >/dev/null || { echo "cbmc missing"; exit 1; }
python3-vt -c "import z3" || { echo "z3 python bindings missing"; exit 1; }
mkdir -p .build evidence replays
python3-vt runner/gen_manifest.py >/dev/null
echo "setup ok"
