//! C04 / C02 / C01 (writer side) — DataSetWriter emits structurally valid streams: undefined-length sequences/items are closed by the
//! matching delimiters, defined-length ones are not, under both explicit-length strategies; element values are padded to even length.
use crate::common::*;
use crate::{parser_stubs, parser_text_stubs};
use dicom_core::header::{DataElementHeader, Length};
use dicom_core::{PrimitiveValue, Tag, VR};
use dicom_encoding::encode::explicit_le::ExplicitVRLittleEndianEncoder;
use dicom_encoding::encode::EncoderFor;
use dicom_parser::dataset::write::{DataSetWriter, DataSetWriterOptions, ExplicitLengthSqItemStrategy};
use dicom_parser::dataset::DataToken;
use smallvec::smallvec;

const UNDEF: u32 = 0xFFFF_FFFF;

fn put_tag(o: &mut [u8; 96], at: usize, g: u16, e: u16) {
    o[at] = g as u8; o[at + 1] = (g >> 8) as u8; o[at + 2] = e as u8; o[at + 3] = (e >> 8) as u8;
}
fn put32(o: &mut [u8; 96], at: usize, v: u32) {
    o[at] = v as u8; o[at + 1] = (v >> 8) as u8; o[at + 2] = (v >> 16) as u8; o[at + 3] = (v >> 24) as u8;
}
/// reference Explicit VR LE encoding of  SQ(tag, sq_len){ item(item_len){ (0028,0010) US 2 bytes } }  as PS3.5 7.5 prescribes:
/// delimiters exactly for undefined lengths. Returns the number of bytes.
fn reference_seq(o: &mut [u8; 96], at: usize, tag: Tag, sq_len: u32, item_len: u32, v: u16) -> usize {
    let mut n = at;
    put_tag(o, n, tag.0, tag.1); o[n + 4] = b'S'; o[n + 5] = b'Q'; o[n + 6] = 0; o[n + 7] = 0; put32(o, n + 8, sq_len); n += 12;
    put_tag(o, n, 0xFFFE, 0xE000); put32(o, n + 4, item_len); n += 8;
    put_tag(o, n, 0x0028, 0x0010); o[n + 4] = b'U'; o[n + 5] = b'S'; o[n + 6] = 2; o[n + 7] = 0; o[n + 8] = v as u8; o[n + 9] = (v >> 8) as u8; n += 10;
    if item_len == UNDEF { put_tag(o, n, 0xFFFE, 0xE00D); put32(o, n + 4, 0); n += 8; }
    if sq_len == UNDEF { put_tag(o, n, 0xFFFE, 0xE0DD); put32(o, n + 4, 0); n += 8; }
    n - at
}

fn same(a: &[u8; 96], b: &[u8; 96], n: usize) -> bool {
    let mut i = 0;
    let mut ok = true;
    while i < 96 { if i < n && a[i] != b[i] { ok = false; } i += 1; }
    ok
}

/// one nested sequence; `keep` = ExplicitLengthSqItemStrategy::NoChange
macro_rules! seq_shape {
    ($name:ident, $keep:expr) => {
        parser_stubs! {
            #[kani::unwind(98)]
            fn $name() {
                let tag = Tag(kani::any(), kani::any());
                kani::assume(tag.0 != 0xFFFE && tag != Tag(0x7FE0, 0x0010));
                let v: u16 = kani::any();
                // canonical input lengths: either undefined, or the exact defined lengths of the content
                let sq_def: bool = kani::any();
                let item_def: bool = kani::any();
                let item_len = if item_def { 10 } else { UNDEF };
                let sq_len = if sq_def { 8 + 10 + if item_def { 0 } else { 8 } } else { UNDEF };
                let mut w: CountW<96> = CountW::new();
                {
                    let opts = DataSetWriterOptions::default().explicit_length_sq_item_strategy(if $keep { ExplicitLengthSqItemStrategy::NoChange } else { ExplicitLengthSqItemStrategy::SetUndefined });
                    let mut dw = DataSetWriter::new_with_options(&mut w, EncoderFor::new(ExplicitVRLittleEndianEncoder::default()), opts);
                    // tokens are passed one by one as literals: moving them through an array makes CBMC lose the (concrete) variant
                    macro_rules! w { ($t:expr) => { let r = dw.write($t); assert!(r.is_ok(), "writing a well-formed token failed"); core::mem::forget(r); } }
                    w!(DataToken::SequenceStart { tag, len: Length(sq_len) });
                    w!(DataToken::ItemStart { len: Length(item_len) });
                    w!(DataToken::ElementHeader(DataElementHeader::new(Tag(0x0028, 0x0010), VR::US, Length(2))));
                    w!(DataToken::PrimitiveValue(PrimitiveValue::U16(smallvec![v])));
                    w!(DataToken::ItemEnd);
                    w!(DataToken::SequenceEnd);
                    core::mem::forget(dw);
                }
                let mut want = [0u8; 96];
                // NoChange keeps the recorded lengths; the default strategy turns every sequence and item into undefined length
                let (ws, wi) = if $keep { (sq_len, item_len) } else { (UNDEF, UNDEF) };
                let n = reference_seq(&mut want, 0, tag, ws, wi, v);
                assert!(w.n == n, "stream length differs from the reference encoding");
                assert!(same(&w.buf, &want, n), "stream bytes differ from the reference encoding");
                kani::cover!(sq_def && item_def, "all lengths defined in the input");
                kani::cover!(!sq_def && !item_def, "all lengths undefined in the input");
            }
        }
    };
}
seq_shape!(c04_writer_seq_keep_lengths, true);
seq_shape!(c04_writer_seq_default, false);

/// encapsulated pixel data followed by a data set sequence: with the default strategy the later sequence's item must not keep an
/// explicit length (the pixel data context must not leak past the end of the pixel sequence)
parser_stubs! {
    #[kani::unwind(98)]
    fn c04_writer_pixel_then_seq_default() {
        let frag: [u8; 2] = kani::any();
        let v: u16 = kani::any();
        let tag = Tag(0xFFFA, 0xFFFA);
        let mut w: CountW<96> = CountW::new();
        {
            let mut dw = DataSetWriter::new_with_options(&mut w, EncoderFor::new(ExplicitVRLittleEndianEncoder::default()), DataSetWriterOptions::default());
            macro_rules! w { ($t:expr) => { let r = dw.write($t); assert!(r.is_ok()); core::mem::forget(r); } }
            w!(DataToken::PixelSequenceStart);
            w!(DataToken::ItemStart { len: Length(0) });
            w!(DataToken::ItemEnd);
            w!(DataToken::ItemStart { len: Length(2) });
            w!(DataToken::ItemValue(frag.to_vec()));
            w!(DataToken::ItemEnd);
            w!(DataToken::SequenceEnd);
            w!(DataToken::SequenceStart { tag, len: Length(18) });
            w!(DataToken::ItemStart { len: Length(10) });
            w!(DataToken::ElementHeader(DataElementHeader::new(Tag(0x0028, 0x0010), VR::US, Length(2))));
            w!(DataToken::PrimitiveValue(PrimitiveValue::U16(smallvec![v])));
            w!(DataToken::ItemEnd);
            w!(DataToken::SequenceEnd);
            core::mem::forget(dw);
        }
        let mut want = [0u8; 96];
        let mut n = 0;
        put_tag(&mut want, n, 0x7FE0, 0x0010); want[4] = b'O'; want[5] = b'B'; put32(&mut want, 8, UNDEF); n += 12;
        put_tag(&mut want, n, 0xFFFE, 0xE000); put32(&mut want, n + 4, 0); n += 8;                 // empty offset table
        put_tag(&mut want, n, 0xFFFE, 0xE000); put32(&mut want, n + 4, 2); want[n + 8] = frag[0]; want[n + 9] = frag[1]; n += 10;
        put_tag(&mut want, n, 0xFFFE, 0xE0DD); put32(&mut want, n + 4, 0); n += 8;
        n += reference_seq(&mut want, n, tag, UNDEF, UNDEF, v);
        assert!(w.n == n, "stream length differs from the reference encoding (item of the later sequence kept an explicit length?)");
        assert!(same(&w.buf, &want, n), "stream bytes differ from the reference encoding");
        kani::cover!(true, "stream written");
    }
}
