//! Harness crate `parser`: dicom-parser kernels (C07 value readers; the C04 writer harnesses ran out of memory and moved to Engine M)
#![allow(unused)]
#[path = "../../common/common.rs"]
pub mod common;

#[cfg(kani)]
pub mod stubs;
#[cfg(kani)]
mod c07;
