//! Harness crate `parser`: dicom-parser kernels (C07, C01a, C04 stateful encoder, C05 readers, C06, C02)
#![allow(unused)]
#[path = "../../common/common.rs"]
pub mod common;

#[cfg(kani)]
pub mod stubs;
#[cfg(kani)]
mod c07;
#[cfg(kani)]
