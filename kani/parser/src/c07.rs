//! C07 — odd-length values: bytes consumed == declared length, position == bytes consumed.
use crate::common::*;
use crate::{parser_stubs, parser_text_stubs};
use dicom_core::header::{DataElementHeader, Length};
use dicom_core::{PrimitiveValue, Tag, VR};
use dicom_encoding::decode::basic::{BigEndianBasicDecoder, LittleEndianBasicDecoder};
use dicom_encoding::decode::explicit_be::ExplicitVRBigEndianDecoder;
use dicom_encoding::decode::explicit_le::ExplicitVRLittleEndianDecoder;
use dicom_encoding::text::SpecificCharacterSet;
use dicom_parser::stateful::decode::{StatefulDecode, StatefulDecoder};

/// kernel (a): one value read with a concrete declared length L over N source bytes.
/// Accepting strategy: a successful read consumes exactly L bytes and advances position by L.
macro_rules! value_read {
    ($name:ident, $vr:expr, $len:expr, $n:expr, $unwind:expr, $method:ident) => {
        value_read!($name, $vr, $len, $n, $unwind, $method, parser_stubs);
    };
    ($name:ident, $vr:expr, $len:expr, $n:expr, $unwind:expr, $method:ident, $stubs:ident) => {
        $stubs! {
            #[kani::unwind($unwind)]
            fn $name() {
                let data: [u8; $n] = kani::any();
                let mut src = &data[..];
                let mut dec = StatefulDecoder::new(&mut src, ExplicitVRLittleEndianDecoder::default(), LittleEndianBasicDecoder, SpecificCharacterSet::default());
                let h = DataElementHeader::new(Tag(0x0029, 0x1010), $vr, Length($len));
                let r = dec.$method(&h);
                let pos = dec.position();
                core::mem::forget(dec);
                let consumed = $n - src.len();
                match &r {
                    Ok(_) => {
                        assert!(consumed == $len, "bytes consumed != declared length");
                        assert!(pos == consumed as u64, "position != bytes consumed");
                        kani::cover!(true, "value read");
                    }
                    Err(_) => {
                        // an error must not have advanced the position past what was consumed
                        assert!(pos <= consumed as u64);
                    }
                }
                core::mem::forget(r);
            }
        }
    };
}

// binary VR classes (readers: tag, ob, us, ss, fl, od, ul, uv, sl, sv) × odd lengths
value_read!(c07_val_us_1, VR::US, 1, 8, 6, read_value);
value_read!(c07_val_us_3, VR::US, 3, 8, 6, read_value);
value_read!(c07_val_us_5, VR::US, 5, 8, 6, read_value);
value_read!(c07_val_ow_3, VR::OW, 3, 8, 6, read_value);
value_read!(c07_val_ss_3, VR::SS, 3, 8, 6, read_value);
value_read!(c07_val_ul_5, VR::UL, 5, 8, 6, read_value);
value_read!(c07_val_ol_7, VR::OL, 7, 8, 6, read_value);
value_read!(c07_val_sl_5, VR::SL, 5, 8, 6, read_value);
value_read!(c07_val_fl_5, VR::FL, 5, 8, 6, read_value);
value_read!(c07_val_of_3, VR::OF, 3, 8, 6, read_value);
value_read!(c07_val_fd_9, VR::FD, 9, 12, 6, read_value);
value_read!(c07_val_od_3, VR::OD, 3, 12, 6, read_value);
value_read!(c07_val_uv_9, VR::UV, 9, 12, 6, read_value);
value_read!(c07_val_ov_5, VR::OV, 5, 12, 6, read_value);
value_read!(c07_val_sv_9, VR::SV, 9, 12, 6, read_value);
value_read!(c07_val_ob_3, VR::OB, 3, 8, 6, read_value);
value_read!(c07_val_un_5, VR::UN, 5, 8, 6, read_value);
// preserved / raw strategies
value_read!(c07_valp_us_3, VR::US, 3, 8, 6, read_value_preserved);
value_read!(c07_valp_ul_5, VR::UL, 5, 8, 6, read_value_preserved);
value_read!(c07_valb_us_3, VR::US, 3, 8, 6, read_value_bytes);
value_read!(c07_valb_fd_5, VR::FD, 5, 8, 6, read_value_bytes);

// Text VR classes: measured on Engine K with a Latin-1 model of the default codec, every reader that goes through
// Vec::resize_with + split + collect into SmallVec<[String; 2]> (strs, cs, da, dt, tm, ds, is) exceeds 8 GB / 6-13 min, also
// when the value bytes are restricted to padding; the single-string reader (ST/UT) finishes in 150 s but only with library
// loops cut by the unwind bound. These readers are therefore not claimed on Engine K (see DESIGN.md §3 C07).
