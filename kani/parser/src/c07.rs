//! C07 — odd-length values: bytes consumed == declared length, position == bytes consumed.
use crate::common::*;
use crate::{parser_stubs, parser_text_stubs};
use dicom_core::header::{DataElementHeader, Length};
use dicom_core::{PrimitiveValue, Tag, VR};
use dicom_encoding::decode::basic::{BigEndianBasicDecoder, LittleEndianBasicDecoder};
use dicom_encoding::decode::explicit_be::ExplicitVRBigEndianDecoder;
use dicom_encoding::decode::explicit_le::ExplicitVRLittleEndianDecoder;
use dicom_encoding::text::SpecificCharacterSet;
use dicom_parser::stateful::decode::{StatefulDecode, StatefulDecoder};

/// kernel (a): one value read with a concrete declared length L over N source bytes.
/// Accepting strategy: a successful read consumes exactly L bytes and advances position by L.
macro_rules! value_read {
    ($name:ident, $vr:expr, $len:expr, $n:expr, $unwind:expr, $method:ident) => {
        value_read!($name, $vr, $len, $n, $unwind, $method, parser_stubs);
    };
    ($name:ident, $vr:expr, $len:expr, $n:expr, $unwind:expr, $method:ident, $stubs:ident) => {
        $stubs! {
            #[kani::unwind($unwind)]
            fn $name() {
                let data: [u8; $n] = kani::any();
                let mut src = &data[..];
                let mut dec = StatefulDecoder::new(&mut src, ExplicitVRLittleEndianDecoder::default(), LittleEndianBasicDecoder, SpecificCharacterSet::default());
                let h = DataElementHeader::new(Tag(0x0029, 0x1010), $vr, Length($len));
                let r = dec.$method(&h);
                let pos = dec.position();
                core::mem::forget(dec);
                let consumed = $n - src.len();
                match &r {
                    Ok(_) => {
                        assert!(consumed == $len, "bytes consumed != declared length");
                        assert!(pos == consumed as u64, "position != bytes consumed");
                        kani::cover!(true, "value read");
                    }
                    Err(_) => {
                        // an error must not have advanced the position past what was consumed
                        assert!(pos <= consumed as u64);
                    }
                }
                core::mem::forget(r);
            }
        }
    };
}

// binary VR readers (tag is excluded, see below) x EVERY residue of the declared length modulo the sample size, with zero and one whole sample before it
value_read!(c07_val_us_1, VR::US, 1, 8, 6, read_value);
value_read!(c07_val_us_3, VR::US, 3, 8, 6, read_value);
value_read!(c07_val_us_5, VR::US, 5, 8, 6, read_value);
value_read!(c07_val_ow_1, VR::OW, 1, 8, 6, read_value);
value_read!(c07_val_ow_3, VR::OW, 3, 8, 6, read_value);
value_read!(c07_val_ow_5, VR::OW, 5, 8, 6, read_value);
value_read!(c07_val_ss_1, VR::SS, 1, 8, 6, read_value);
value_read!(c07_val_ss_3, VR::SS, 3, 8, 6, read_value);
value_read!(c07_val_ss_5, VR::SS, 5, 8, 6, read_value);
value_read!(c07_val_ul_1, VR::UL, 1, 8, 6, read_value);
value_read!(c07_val_ul_2, VR::UL, 2, 8, 6, read_value);
value_read!(c07_val_ul_3, VR::UL, 3, 8, 6, read_value);
value_read!(c07_val_ul_5, VR::UL, 5, 8, 6, read_value);
value_read!(c07_val_ul_6, VR::UL, 6, 8, 6, read_value);
value_read!(c07_val_ul_7, VR::UL, 7, 8, 6, read_value);
value_read!(c07_val_ol_3, VR::OL, 3, 8, 6, read_value);
value_read!(c07_val_ol_5, VR::OL, 5, 8, 6, read_value);
value_read!(c07_val_ol_7, VR::OL, 7, 8, 6, read_value);
value_read!(c07_val_sl_1, VR::SL, 1, 8, 6, read_value);
value_read!(c07_val_sl_2, VR::SL, 2, 8, 6, read_value);
value_read!(c07_val_sl_3, VR::SL, 3, 8, 6, read_value);
value_read!(c07_val_sl_5, VR::SL, 5, 8, 6, read_value);
value_read!(c07_val_sl_6, VR::SL, 6, 8, 6, read_value);
value_read!(c07_val_sl_7, VR::SL, 7, 8, 6, read_value);
value_read!(c07_val_fl_1, VR::FL, 1, 8, 6, read_value);
value_read!(c07_val_fl_2, VR::FL, 2, 8, 6, read_value);
value_read!(c07_val_fl_3, VR::FL, 3, 8, 6, read_value);
value_read!(c07_val_fl_5, VR::FL, 5, 8, 6, read_value);
value_read!(c07_val_fl_6, VR::FL, 6, 8, 6, read_value);
value_read!(c07_val_fl_7, VR::FL, 7, 8, 6, read_value);
value_read!(c07_val_of_3, VR::OF, 3, 8, 6, read_value);
value_read!(c07_val_of_5, VR::OF, 5, 8, 6, read_value);
value_read!(c07_val_of_7, VR::OF, 7, 8, 6, read_value);
value_read!(c07_val_fd_1, VR::FD, 1, 16, 6, read_value);
value_read!(c07_val_fd_3, VR::FD, 3, 16, 6, read_value);
value_read!(c07_val_fd_5, VR::FD, 5, 16, 6, read_value);
value_read!(c07_val_fd_7, VR::FD, 7, 16, 6, read_value);
value_read!(c07_val_fd_9, VR::FD, 9, 16, 6, read_value);
value_read!(c07_val_fd_11, VR::FD, 11, 16, 6, read_value);
value_read!(c07_val_fd_13, VR::FD, 13, 16, 6, read_value);
value_read!(c07_val_fd_15, VR::FD, 15, 16, 6, read_value);
value_read!(c07_val_od_3, VR::OD, 3, 16, 6, read_value);
value_read!(c07_val_od_5, VR::OD, 5, 16, 6, read_value);
value_read!(c07_val_od_13, VR::OD, 13, 16, 6, read_value);
value_read!(c07_val_od_14, VR::OD, 14, 16, 6, read_value);
value_read!(c07_val_uv_1, VR::UV, 1, 16, 6, read_value);
value_read!(c07_val_uv_3, VR::UV, 3, 16, 6, read_value);
value_read!(c07_val_uv_5, VR::UV, 5, 16, 6, read_value);
value_read!(c07_val_uv_7, VR::UV, 7, 16, 6, read_value);
value_read!(c07_val_uv_9, VR::UV, 9, 16, 6, read_value);
value_read!(c07_val_uv_11, VR::UV, 11, 16, 6, read_value);
value_read!(c07_val_uv_13, VR::UV, 13, 16, 6, read_value);
value_read!(c07_val_uv_15, VR::UV, 15, 16, 6, read_value);
value_read!(c07_val_ov_3, VR::OV, 3, 16, 6, read_value);
value_read!(c07_val_ov_5, VR::OV, 5, 16, 6, read_value);
value_read!(c07_val_ov_13, VR::OV, 13, 16, 6, read_value);
value_read!(c07_val_ov_14, VR::OV, 14, 16, 6, read_value);
value_read!(c07_val_sv_1, VR::SV, 1, 16, 6, read_value);
value_read!(c07_val_sv_2, VR::SV, 2, 16, 6, read_value);
value_read!(c07_val_sv_3, VR::SV, 3, 16, 6, read_value);
value_read!(c07_val_sv_4, VR::SV, 4, 16, 6, read_value);
value_read!(c07_val_sv_5, VR::SV, 5, 16, 6, read_value);
value_read!(c07_val_sv_6, VR::SV, 6, 16, 6, read_value);
value_read!(c07_val_sv_7, VR::SV, 7, 16, 6, read_value);
value_read!(c07_val_sv_9, VR::SV, 9, 16, 6, read_value);
value_read!(c07_val_sv_10, VR::SV, 10, 16, 6, read_value);
value_read!(c07_val_sv_11, VR::SV, 11, 16, 6, read_value);
value_read!(c07_val_sv_12, VR::SV, 12, 16, 6, read_value);
value_read!(c07_val_sv_13, VR::SV, 13, 16, 6, read_value);
value_read!(c07_val_sv_14, VR::SV, 14, 16, 6, read_value);
value_read!(c07_val_sv_15, VR::SV, 15, 16, 6, read_value);
value_read!(c07_val_ob_3, VR::OB, 3, 8, 6, read_value);
value_read!(c07_val_un_5, VR::UN, 5, 8, 6, read_value);
value_read!(c07_val_ob_1, VR::OB, 1, 8, 6, read_value);
// preserved / raw strategies
value_read!(c07_valp_us_3, VR::US, 3, 8, 6, read_value_preserved);
value_read!(c07_valp_ul_5, VR::UL, 5, 8, 6, read_value_preserved);
value_read!(c07_valp_sv_13, VR::SV, 13, 16, 6, read_value_preserved);
value_read!(c07_valp_fd_7, VR::FD, 7, 16, 6, read_value_preserved);
value_read!(c07_valb_us_3, VR::US, 3, 8, 6, read_value_bytes);
value_read!(c07_valb_fd_5, VR::FD, 5, 8, 6, read_value_bytes);
value_read!(c07_valb_sv_13, VR::SV, 13, 16, 6, read_value_bytes);
// Text VR classes: measured on Engine K with a Latin-1 model of the default codec, every reader that goes through
// Vec::resize_with + split + collect into SmallVec<[String; 2]> (strs, cs, da, dt, tm, ds, is) exceeds 8 GB / 6-13 min, also
// when the value bytes are restricted to padding; the single-string reader (ST/UT) finishes in 150 s but only with library
// loops cut by the unwind bound. These readers are therefore not claimed on Engine K (see DESIGN.md §3 C07).
