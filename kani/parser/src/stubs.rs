//! Stubs shared by the parser harnesses (each one is listed in the evidence through Kani's metadata).
use dicom_core::dictionary::DataDictionaryEntryRef;
use dicom_core::Tag;

/// `StandardDataDictionary::indexed_tag` is a lazy-static HashMap lookup (ICEs kani-compiler, DESIGN §1.2 rule 2):
/// the verification build answers "unknown attribute". The real lookup is decided by C15 (Engine M).
pub fn indexed_tag_none(_tag: Tag) -> Option<&'static DataDictionaryEntryRef<'static>> {
    None
}

/// expands to the stub attributes every parser harness needs
#[macro_export]
macro_rules! parser_stubs {
    ($(#[$m:meta])* fn $name:ident() $body:block) => {
        #[kani::proof]
        #[kani::stub(tracing_core::callsite::DefaultCallsite::interest, crate::common::trstub::tracing_interest_stub)]
        #[kani::stub(tracing::__macro_support::__is_enabled, crate::common::trstub::tracing_enabled_stub)]
        #[kani::stub(tracing_core::event::Event::dispatch, crate::common::trstub::tracing_dispatch_stub)]
        #[kani::stub(dicom_dictionary_std::data_element::StandardDataDictionary::indexed_tag, crate::stubs::indexed_tag_none)]
        $(#[$m])*
        fn $name() $body
    };
}

use dicom_encoding::text::{DecodeTextError, DefaultCharacterSetCodec, EncodeTextError};

/// Model of the `encoding` crate's ISO-8859-1 decoder used by `DefaultCharacterSetCodec::decode`:
/// every byte is the code point of the same number (no byte is invalid in Latin-1, so the decoder trap never fires).
/// The third-party codec itself is the subject of C10, not of the data set properties.
pub fn latin1_decode(_s: &DefaultCharacterSetCodec, text: &[u8]) -> Result<String, DecodeTextError> {
    let mut b = [0u8; 32];
    let mut n = 0;
    let mut i = 0;
    while i < text.len() {
        let c = text[i];
        if c < 0x80 {
            b[n] = c;
            n += 1;
        } else {
            b[n] = 0xC0 | (c >> 6);
            b[n + 1] = 0x80 | (c & 0x3F);
            n += 2;
        }
        i += 1;
    }
    Ok(String::from(unsafe { core::str::from_utf8_unchecked(&b[..n]) }))
}

/// Model of the ISO-8859-1 encoder with `EncoderTrap::Strict`: code points up to U+00FF map to one byte, others fail.
pub fn latin1_encode(_s: &DefaultCharacterSetCodec, text: &str) -> Result<Vec<u8>, EncodeTextError> {
    let mut b = [0u8; 32];
    let mut n = 0;
    let t = text.as_bytes();
    let mut i = 0;
    while i < t.len() {
        let c = t[i];
        if c < 0x80 {
            b[n] = c;
            i += 1;
        } else if c & 0xFC == 0xC0 && i + 1 < t.len() {
            // two-byte sequence up to U+00FF
            b[n] = ((c & 0x03) << 6) | (t[i + 1] & 0x3F);
            i += 2;
        } else {
            return Err(EncodeTextError::EncodeCustom {
                message: std::borrow::Cow::Borrowed("unrepresentable character"),
                backtrace: snafu::GenerateImplicitData::generate(),
            });
        }
        n += 1;
    }
    Ok(b[..n].to_vec())
}

/// parser stubs + Latin-1 model of the default character set codec
#[macro_export]
macro_rules! parser_text_stubs {
    ($(#[$m:meta])* fn $name:ident() $body:block) => {
        $crate::parser_stubs! {
            #[kani::stub(<dicom_encoding::text::DefaultCharacterSetCodec as dicom_encoding::text::TextCodec>::decode, crate::stubs::latin1_decode)]
            #[kani::stub(<dicom_encoding::text::DefaultCharacterSetCodec as dicom_encoding::text::TextCodec>::encode, crate::stubs::latin1_encode)]
            $(#[$m])*
            fn $name() $body
        }
    };
}
