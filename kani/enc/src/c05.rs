//! C05 — textual date / time / date-time parsers never panic on any byte string (and what they accept is well-formed).
use crate::common::*;
use dicom_core::value::deserialize::{parse_date, parse_date_partial, parse_datetime_partial, parse_time, parse_time_partial};
use dicom_core::value::range::{parse_date_range, parse_time_range};

fn digit(b: u8) -> bool { b >= b'0' && b <= b'9' }

macro_rules! date_partial {
    ($name:ident, $n:expr) => {
        #[kani::proof]
        #[kani::unwind(12)]
        fn $name() {
            let b: [u8; $n] = kani::any();
            let r = parse_date_partial(&b[..]);          // any bytes: value or error, never a panic
            if let Ok((_d, rest)) = &r {
                // accepted => at least the four year bytes are digits, and the rest is a suffix of the input
                assert!($n >= 4 && digit(b[0]) && digit(b[1]) && digit(b[2]) && digit(b[3]), "accepted a date without a numeric year");
                assert!(rest.len() + 4 <= $n);
            }
            kani::cover!(r.is_ok() || $n < 4, "a date is accepted");
            kani::cover!(r.is_err(), "a date is rejected");
            core::mem::forget(r);
        }
    };
}
date_partial!(c05_date_partial_len0, 0);
date_partial!(c05_date_partial_len3, 3);
date_partial!(c05_date_partial_len4, 4);
date_partial!(c05_date_partial_len5, 5);
date_partial!(c05_date_partial_len6, 6);
date_partial!(c05_date_partial_len7, 7);
date_partial!(c05_date_partial_len8, 8);
date_partial!(c05_date_partial_len9, 9);

macro_rules! nopanic {
    ($name:ident, $f:expr, $n:expr, $unwind:expr) => {
        #[kani::proof]
        #[kani::unwind($unwind)]
        fn $name() {
            let b: [u8; $n] = kani::any();
            let r = $f(&b[..]);
            kani::cover!(r.is_err(), "rejected");
            core::mem::forget(r);
        }
    };
}
nopanic!(c05_date_len8, parse_date, 8, 12);
nopanic!(c05_date_len6, parse_date, 6, 12);
nopanic!(c05_date_len10, parse_date, 10, 12);
nopanic!(c05_time_partial_len1, parse_time_partial, 1, 16);
nopanic!(c05_time_partial_len2, parse_time_partial, 2, 16);
nopanic!(c05_time_partial_len4, parse_time_partial, 4, 16);
nopanic!(c05_time_partial_len6, parse_time_partial, 6, 16);
nopanic!(c05_time_partial_len7, parse_time_partial, 7, 16);
nopanic!(c05_time_partial_len8, parse_time_partial, 8, 16);
nopanic!(c05_time_partial_len13, parse_time_partial, 13, 16);
nopanic!(c05_time_partial_len14, parse_time_partial, 14, 18);
nopanic!(c05_time_len6, parse_time, 6, 16);
nopanic!(c05_time_len13, parse_time, 13, 16);
nopanic!(c05_datetime_partial_len4, parse_datetime_partial, 4, 16);
nopanic!(c05_datetime_partial_len8, parse_datetime_partial, 8, 16);
nopanic!(c05_datetime_partial_len14, parse_datetime_partial, 14, 20);
nopanic!(c05_datetime_partial_len19, parse_datetime_partial, 19, 24);
// range parsers (split on '-' + two partial parsers + chrono conversions): measured > 10 GB / 15 min for 9 input bytes; not harnessed.
