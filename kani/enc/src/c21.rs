//! C21 (frame extraction half) / C18 (frame retrieval clause) — PixelDataObject::frame_pixel_data (default method).
use crate::common::*;
use dicom_encoding::adapters::{PixelDataObject, RawPixelData};
use std::borrow::Cow;

struct Native { data: [u8; 48], len: usize, rows: u16, cols: u16, spp: u16, bits: u16, frames: u32 }
impl PixelDataObject for Native {
    fn transfer_syntax_uid(&self) -> &str { "1.2.840.10008.1.2.1" }
    fn rows(&self) -> Option<u16> { Some(self.rows) }
    fn cols(&self) -> Option<u16> { Some(self.cols) }
    fn samples_per_pixel(&self) -> Option<u16> { Some(self.spp) }
    fn bits_allocated(&self) -> Option<u16> { Some(self.bits) }
    fn bits_stored(&self) -> Option<u16> { Some(self.bits) }
    fn photometric_interpretation(&self) -> Option<&str> { Some(if self.spp == 3 { "RGB" } else { "MONOCHROME2" }) }
    fn number_of_frames(&self) -> Option<u32> { Some(self.frames) }
    fn number_of_fragments(&self) -> Option<u32> { None }
    fn fragment(&self, fragment: usize) -> Option<Cow<'_, [u8]>> { if fragment == 0 { Some(Cow::Borrowed(&self.data[..self.len])) } else { None } }
    fn offset_table(&self) -> Option<Cow<'_, [u32]>> { None }
    fn raw_pixel_data(&self) -> Option<RawPixelData> { None }
}

/// native 8/16-bit data: frame k is exactly bytes [k*fs, (k+1)*fs) of the stored pixel data
macro_rules! native_bytes {
    ($name:ident, $bits:expr, $spp:expr, $len:expr) => {
        #[kani::proof]
        #[kani::unwind(50)]
        fn $name() {
            let data: [u8; 48] = kani::any();
            let rows: u16 = kani::any();
            let cols: u16 = kani::any();
            kani::assume(rows >= 1 && rows <= 4 && cols >= 1 && cols <= 4);
            let frame: u32 = kani::any();
            kani::assume(frame < 4);
            let o = Native { data, len: $len, rows, cols, spp: $spp, bits: $bits, frames: 4 };
            let fs = rows as usize * cols as usize * $spp * ($bits / 8);
            let r = o.frame_pixel_data(frame);
            let start = frame as usize * fs;
            let end = start + fs;
            match &r {
                Some(fr) => {
                    assert!(end <= $len, "returned a frame that lies outside the pixel data");
                    assert!(fr.len() == fs, "frame has the wrong number of bytes");
                    let mut i = 0;
                    while i < 48 {
                        if i >= start && i < end { assert!(fr[i - start] == data[i], "frame bytes differ from the stored pixel data"); }
                        i += 1;
                    }
                    kani::cover!(frame == 2, "third frame extracted");
                }
                None => assert!(end > $len, "frame inside the pixel data was not returned"),
            }
            core::mem::forget(r);
            kani::cover!(end > $len, "frame out of range");
        }
    };
}
native_bytes!(c21_native_8bit_gray, 8, 1, 40);
native_bytes!(c21_native_8bit_rgb, 8, 3, 48);
native_bytes!(c21_native_16bit_gray, 16, 1, 48);

/// native 1-bit data, bits packed continuously across frame boundaries: the returned bytes cover exactly the bytes that hold
/// bits [k*n, (k+1)*n) of the packed stream (n = rows*columns, any n, not only multiples of 8)
#[kani::proof]
#[kani::unwind(50)]
fn c21_native_1bit() {
    let data: [u8; 48] = kani::any();
    let rows: u16 = kani::any();
    let cols: u16 = kani::any();
    kani::assume(rows >= 1 && rows <= 17 && cols >= 1 && cols <= 17);
    let frame: u32 = kani::any();
    kani::assume(frame < 7);
    let len = 40usize;
    let o = Native { data, len, rows, cols, spp: 1, bits: 1, frames: 7 };
    let n = rows as usize * cols as usize;
    let first_bit = frame as usize * n;
    let end_bit = first_bit + n;                 // exclusive
    let start = first_bit / 8;
    let end = (end_bit + 7) / 8;
    let r = o.frame_pixel_data(frame);
    match &r {
        Some(fr) => {
            assert!(end <= len);
            assert!(fr.len() == end - start, "1-bit frame: byte range does not cover exactly the frame's bits");
            let mut i = 0;
            while i < 48 {
                if i >= start && i < end { assert!(fr[i - start] == data[i], "frame bytes differ from the stored pixel data"); }
                i += 1;
            }
            kani::cover!(n % 8 != 0 && frame >= 1, "pixel count not a multiple of 8, later frame");
        }
        None => assert!(end > len, "frame inside the pixel data was not returned"),
    }
    core::mem::forget(r);
}

/// encapsulated data: frame k is the concatenation of the fragments the basic offset table assigns to it
struct Encaps { buf: [u8; 8], cuts: [usize; 4], nfrag: u32, frames: u32, bot: [u32; 2], botlen: usize }
impl PixelDataObject for Encaps {
    fn transfer_syntax_uid(&self) -> &str { "1.2.840.10008.1.2.4.50" }
    fn rows(&self) -> Option<u16> { Some(1) }
    fn cols(&self) -> Option<u16> { Some(1) }
    fn samples_per_pixel(&self) -> Option<u16> { Some(1) }
    fn bits_allocated(&self) -> Option<u16> { Some(8) }
    fn bits_stored(&self) -> Option<u16> { Some(8) }
    fn photometric_interpretation(&self) -> Option<&str> { Some("MONOCHROME2") }
    fn number_of_frames(&self) -> Option<u32> { Some(self.frames) }
    fn number_of_fragments(&self) -> Option<u32> { Some(self.nfrag) }
    fn fragment(&self, i: usize) -> Option<Cow<'_, [u8]>> { if i < self.nfrag as usize { Some(Cow::Borrowed(&self.buf[self.cuts[i]..self.cuts[i + 1]])) } else { None } }
    fn offset_table(&self) -> Option<Cow<'_, [u32]>> { Some(Cow::Borrowed(&self.bot[..self.botlen])) }
    fn raw_pixel_data(&self) -> Option<RawPixelData> { None }
}
/// three fragments of 2, 4 and 2 bytes, two frames, the first frame owning SPLIT fragments
macro_rules! encaps {
    ($name:ident, $split:expr, $frame:expr) => {
        #[kani::proof]
        #[kani::unwind(12)]
        fn $name() {
            let buf: [u8; 8] = kani::any();
            let cuts = [0usize, 2, 6, 8];
            let second = if $split == 1 { 2 + 8 } else { 2 + 8 + 4 + 8 };
            let o = Encaps { buf, cuts, nfrag: 3, frames: 2, bot: [0, second as u32], botlen: 2 };
            let r = o.frame_pixel_data($frame);
            let (a, b) = if $frame == 0 { (0usize, cuts[$split]) } else { (cuts[$split], 8usize) };
            match &r {
                Some(fr) => {
                    assert!(fr.len() == b - a, "frame does not consist of exactly its own fragments");
                    let mut i = 0;
                    while i < 8 {
                        if i >= a && i < b { assert!(fr[i - a] == buf[i], "frame bytes differ from its fragments"); }
                        i += 1;
                    }
                    kani::cover!(true, "frame assembled");
                }
                None => assert!(false, "existing frame not returned"),
            }
            core::mem::forget(r);
        }
    };
}
encaps!(c21_encaps_split1_frame0, 1, 0);
encaps!(c21_encaps_split1_frame1, 1, 1);
encaps!(c21_encaps_split2_frame0, 2, 0);
encaps!(c21_encaps_split2_frame1, 2, 1);
