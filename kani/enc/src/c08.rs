//! C08 — flexible (adaptive) VR decoding agrees with the correct decoder whenever the first element is unambiguous.
use crate::common::*;
use dicom_core::dictionary::VirtualVr;
use dicom_core::header::{DataElementHeader, Length};
use dicom_core::{Tag, VR};
use dicom_encoding::decode::adaptive_le::AdaptiveVRLittleEndianDecoder;
use dicom_encoding::decode::explicit_le::ExplicitVRLittleEndianDecoder;
use dicom_encoding::decode::implicit_le::ImplicitVRLittleEndianDecoder;
use dicom_encoding::decode::Decode;

/// the statement's compatibility relation between a probed VR and a dictionary entry (written from PS3.6 conventions)
fn compatible(vr: VR, d: VirtualVr) -> bool {
    match d {
        VirtualVr::Exact(v) => v == vr,
        VirtualVr::Xs => vr == VR::US || vr == VR::SS,
        VirtualVr::Ox | VirtualVr::Px => vr == VR::OB || vr == VR::OW,
        VirtualVr::Lt => vr == VR::US || vr == VR::OW,
        _ => false,
    }
}

fn same(a: &DataElementHeader, na: usize, b: &DataElementHeader, nb: usize) -> bool {
    na == nb && a.tag == b.tag && a.vr == b.vr && a.len.0 == b.len.0
}

/// State Unknown, Explicit VR LE stream: the deciding header is read like the explicit decoder reads it, and the NEXT header
/// (whose attribute the dictionary does not know) too -- which shows the decoder locked to explicit.
#[kani::proof]
#[kani::unwind(5)]
fn c08_explicit_first_header() {
    let buf: [u8; 24] = kani::any();
    let g0 = u16::from_le_bytes([buf[0], buf[1]]);
    kani::assume(g0 != 0xFFFE);
    // the stream really is explicit: bytes 4..6 are the VR code of the first element
    let vr0 = code_index([buf[4], buf[5]]);
    kani::assume(vr0.is_some());
    let vr0 = VRS[vr0.unwrap()];
    let t0 = Tag(g0, u16::from_le_bytes([buf[2], buf[3]]));
    let has: bool = kani::any();
    let vv = any_vvr();
    // a conforming stream's VR is compatible with its attribute's dictionary entry, if there is one
    kani::assume(!has || compatible(vr0, vv));
    let ad = AdaptiveVRLittleEndianDecoder::with_dict(StubDict::one(t0, has, vv));
    let ex = ExplicitVRLittleEndianDecoder::default();
    let mut s1 = &buf[..];
    let mut s2 = &buf[..];
    let a1 = ad.decode_header(&mut s1);
    let e1 = ex.decode_header(&mut s2);
    match (&a1, &e1) {
        (Ok((ha1, na1)), Ok((he1, ne1))) => {
            assert!(same(ha1, *na1, he1, *ne1), "first header differs from the explicit decoder");
            assert!(s1.len() == s2.len());
            kani::cover!(*ne1 == 12, "long header");
            kani::cover!(has && *ne1 == 8, "dictionary knows the attribute");
        }
        _ => assert!(false, "24 bytes always hold a header"),
    }
    core::mem::forget((a1, e1));
}

// Locked states (second and later headers): harnesses that run two element decodes through the state machine were measured at
// > 30 GB / 23 min in CBMC (with concrete first header, concrete dictionary answer, element-wise buffer writes) and are not part of
// this crate; the locked states are plain calls of the explicit / implicit header readers (see DESIGN.md §3 C08).

/// State Unknown, Implicit VR LE stream with an unambiguous first element.
#[kani::proof]
#[kani::unwind(5)]
fn c08_implicit_first_header() {
    let buf: [u8; 16] = kani::any();
    let g0 = u16::from_le_bytes([buf[0], buf[1]]);
    kani::assume(g0 != 0xFFFE);
    let t0 = Tag(g0, u16::from_le_bytes([buf[2], buf[3]]));
    let has: bool = kani::any();
    let vv = any_vvr();
    // unambiguity condition of the statement: the first two length bytes do not spell a VR compatible with the entry
    let spelled = code_index([buf[4], buf[5]]);
    let unambiguous = match spelled {
        None => true,
        Some(i) => has && !compatible(VRS[i], vv),
    };
    kani::assume(unambiguous);
    let ad = AdaptiveVRLittleEndianDecoder::with_dict(StubDict::one(t0, has, vv));
    let im = ImplicitVRLittleEndianDecoder::with_dict(StubDict::one(t0, has, vv));
    let mut s1 = &buf[..];
    let mut s2 = &buf[..];
    let a1 = ad.decode_header(&mut s1);
    let e1 = im.decode_header(&mut s2);
    match (&a1, &e1) {
        (Ok((ha1, na1)), Ok((he1, ne1))) => {
            assert!(same(ha1, *na1, he1, *ne1), "first header differs from the implicit decoder");
            assert!(s1.len() == s2.len());
            kani::cover!(spelled.is_some(), "length bytes spell a VR that the dictionary contradicts");
            kani::cover!(!has, "unknown attribute");
        }
        _ => assert!(false),
    }
    core::mem::forget((a1, e1));
}

/// A leading item delimiter does not decide: the first NON-delimiter element does.
#[kani::proof]
#[kani::unwind(5)]
fn c08_delimiter_first_then_explicit() {
    let mut buf: [u8; 24] = kani::any();
    buf[0] = 0xFE; buf[1] = 0xFF; buf[2] = 0x0D; buf[3] = 0xE0;
    let g1 = u16::from_le_bytes([buf[8], buf[9]]);
    kani::assume(g1 != 0xFFFE);
    let vr1 = code_index([buf[12], buf[13]]);
    kani::assume(vr1.is_some());
    let ad = AdaptiveVRLittleEndianDecoder::with_dict(StubDict::empty());
    let ex = ExplicitVRLittleEndianDecoder::default();
    let mut s1 = &buf[..];
    let mut s2 = &buf[..];
    let a1 = ad.decode_header(&mut s1);
    let a2 = ad.decode_header(&mut s1);
    let e1 = ex.decode_header(&mut s2);
    let e2 = ex.decode_header(&mut s2);
    match (&a1, &e1, &a2, &e2) {
        (Ok((ha1, na1)), Ok((he1, ne1)), Ok((ha2, na2)), Ok((he2, ne2))) => {
            assert!(same(ha1, *na1, he1, *ne1) && *na1 == 8);
            assert!(same(ha2, *na2, he2, *ne2));
            kani::cover!(*na2 == 12, "long header after the delimiter");
        }
        _ => assert!(false),
    }
    core::mem::forget((a1, a2, e1, e2));
}
