//! Harness crate `enc`: dicom-core + dicom-encoding kernels (C03, C04 basic encoders, C08, C14 tag, ...)
#![allow(unused)]
#[path = "../../common/common.rs"]
pub mod common;

#[cfg(kani)]
mod c03;
#[cfg(kani)]
mod c08;
#[cfg(kani)]
mod c14;
#[cfg(kani)]
mod c18;
#[cfg(kani)]
mod c21;
#[cfg(kani)]
mod c05;

/// runner self-test: a harness that must FAIL and replay natively (never part of a property)
#[cfg(kani)]
mod selftest {
    use dicom_core::header::{DataElementHeader, Length};
    use dicom_core::{Tag, VR};
    use dicom_encoding::encode::explicit_le::ExplicitVRLittleEndianEncoder;
    use dicom_encoding::encode::Encode;
    #[kani::proof]
    #[kani::unwind(13)]
    fn selftest_fail() {
        let len: u32 = kani::any();
        let ob: bool = kani::any();
        let mut buf = [0u8; 12];
        let r = ExplicitVRLittleEndianEncoder::default().encode_element_header(
            &mut buf[..],
            DataElementHeader::new(Tag(8, 8), if ob { VR::OB } else { VR::CS }, Length(len)),
        );
        if let Ok(n) = &r {
            assert!(*n == 8, "deliberately wrong: every header is 8 bytes");
        }
        core::mem::forget(r);
    }
}
