//! C03 — element and item headers follow the PS3.5 7.1 wire layout (full width).
use crate::common::*;
use dicom_core::header::{DataElementHeader, Header, Length, SequenceItemHeader};
use dicom_core::{Tag, VR};
use dicom_encoding::decode::adaptive_le::AdaptiveVRLittleEndianDecoder;
use dicom_encoding::decode::explicit_be::ExplicitVRBigEndianDecoder;
use dicom_encoding::decode::explicit_le::ExplicitVRLittleEndianDecoder;
use dicom_encoding::decode::implicit_le::ImplicitVRLittleEndianDecoder;
use dicom_encoding::decode::Decode;
use dicom_encoding::encode::explicit_be::ExplicitVRBigEndianEncoder;
use dicom_encoding::encode::explicit_le::ExplicitVRLittleEndianEncoder;
use dicom_encoding::encode::implicit_le::ImplicitVRLittleEndianEncoder;
use dicom_encoding::encode::Encode;

/// PS3.5 7.1 layout oracle. Returns (bytes, size) or None when the header is not expressible.
/// `be`: big endian; `explicit`: explicit VR.
fn layout(tag: (u16, u16), vri: usize, len: u32, be: bool, explicit: bool) -> Option<([u8; 12], usize)> {
    let mut o = [0u8; 12];
    let put16 = |o: &mut [u8; 12], at: usize, v: u16| {
        if be {
            o[at] = (v >> 8) as u8;
            o[at + 1] = v as u8;
        } else {
            o[at] = v as u8;
            o[at + 1] = (v >> 8) as u8;
        }
    };
    let put32 = |o: &mut [u8; 12], at: usize, v: u32| {
        if be {
            o[at] = (v >> 24) as u8;
            o[at + 1] = (v >> 16) as u8;
            o[at + 2] = (v >> 8) as u8;
            o[at + 3] = v as u8;
        } else {
            o[at] = v as u8;
            o[at + 1] = (v >> 8) as u8;
            o[at + 2] = (v >> 16) as u8;
            o[at + 3] = (v >> 24) as u8;
        }
    };
    put16(&mut o, 0, tag.0);
    put16(&mut o, 2, tag.1);
    if !explicit {
        put32(&mut o, 4, len);
        return Some((o, 8));
    }
    o[4] = VR_CODES[vri][0];
    o[5] = VR_CODES[vri][1];
    if SHORT_FORM[vri] {
        if len > 0xFFFF {
            return None;
        }
        put16(&mut o, 6, len as u16);
        Some((o, 8))
    } else {
        put32(&mut o, 8, len);
        Some((o, 12))
    }
}

fn same12(a: &[u8; 12], b: &[u8; 12], n: usize) -> bool {
    let mut i = 0;
    let mut ok = true;
    while i < 12 {
        if i < n && a[i] != b[i] {
            ok = false;
        }
        i += 1;
    }
    ok
}

macro_rules! hdr_roundtrip {
    ($name:ident, $enc:expr, $dec:expr, $be:expr, $explicit:expr) => {
        #[kani::proof]
        #[kani::unwind(13)]
        fn $name() {
            let tag = Tag(kani::any(), kani::any());
            kani::assume(tag.0 != 0xFFFE);
            let vri = any_vr_index();
            let vr = VRS[vri];
            let len: u32 = kani::any();
            let mut buf = [0u8; 12];
            let enc = $enc;
            let r = enc.encode_element_header(&mut buf[..], DataElementHeader::new(tag, vr, Length(len)));
            let want = layout((tag.0, tag.1), vri, len, $be, $explicit);
            match (&r, &want) {
                (Ok(n), Some((bytes, size))) => {
                    // reported size == layout size, bytes == layout bytes
                    assert!(*n == *size);
                    assert!(same12(&buf, bytes, *size));
                    // decoding returns the same header and consumes exactly the layout
                    let dec = $dec;
                    let mut src = &buf[..];
                    let d = dec.decode_header(&mut src);
                    match &d {
                        Ok((h, m)) => {
                            assert!(*m == *size);
                            assert!(12 - src.len() == *size);
                            assert!(h.tag == tag);
                            assert!(h.len.0 == len);
                            if $explicit {
                                assert!(h.vr == vr);
                            }
                        }
                        Err(_) => {
                            assert!(false, "decoder rejects a header the encoder wrote");
                        }
                    }
                    core::mem::forget(d);
                    kani::cover!(*size == 8, "8-byte header");
                    kani::cover!(*size == 12 || !$explicit, "12-byte header");
                    kani::cover!(len == 0xFFFF_FFFF, "undefined length");
                    kani::cover!(len == 0xFFFF && *size == 8, "largest 16-bit length");
                }
                (Err(_), None) => {}
                (Ok(_), None) => {
                    assert!(false, "16-bit length form truncated an oversized length");
                }
                (Err(_), Some(_)) => {
                    assert!(false, "encoder rejects an expressible header");
                }
            }
            kani::cover!(!$explicit || (r.is_err() && len == 0x1_0000), "overflow rejected at 0x10000");
            core::mem::forget(r);
        }
    };
}

hdr_roundtrip!(c03_hdr_explicit_le, ExplicitVRLittleEndianEncoder::default(), ExplicitVRLittleEndianDecoder::default(), false, true);
hdr_roundtrip!(c03_hdr_explicit_be, ExplicitVRBigEndianEncoder::default(), ExplicitVRBigEndianDecoder::default(), true, true);
hdr_roundtrip!(c03_hdr_implicit_le, ImplicitVRLittleEndianEncoder::default(), ImplicitVRLittleEndianDecoder::with_dict(StubDict::empty()), false, false);

/// Decoder side alone, from arbitrary bytes: what the explicit decoders return is exactly the
/// PS3.5 reading of the first 8/12 bytes (a symmetric encoder/decoder mistake cannot hide here).
macro_rules! hdr_decode_arbitrary {
    ($name:ident, $dec:expr, $be:expr) => {
        #[kani::proof]
        #[kani::unwind(13)]
        fn $name() {
            let buf: [u8; 12] = kani::any();
            let rd16 = |a: u8, b: u8| if $be { ((a as u16) << 8) | b as u16 } else { ((b as u16) << 8) | a as u16 };
            let g = rd16(buf[0], buf[1]);
            let e = rd16(buf[2], buf[3]);
            let dec = $dec;
            let mut src = &buf[..];
            let d = dec.decode_header(&mut src);
            match &d {
                Ok((h, m)) => {
                    assert!(h.tag == Tag(g, e));
                    assert!(12 - src.len() == *m);
                    if g == 0xFFFE {
                        // items and delimiters: tag + 32-bit length, no VR
                        let l = if $be { u32::from_be_bytes([buf[4], buf[5], buf[6], buf[7]]) } else { u32::from_le_bytes([buf[4], buf[5], buf[6], buf[7]]) };
                        assert!(*m == 8 && h.len.0 == l);
                    } else {
                        match code_index([buf[4], buf[5]]) {
                            Some(i) => {
                                assert!(h.vr == VRS[i]);
                                if SHORT_FORM[i] {
                                    assert!(*m == 8);
                                    assert!(h.len.0 == rd16(buf[6], buf[7]) as u32);
                                    kani::cover!(true, "short form");
                                } else {
                                    assert!(*m == 12);
                                    let l = if $be { u32::from_be_bytes([buf[8], buf[9], buf[10], buf[11]]) } else { u32::from_le_bytes([buf[8], buf[9], buf[10], buf[11]]) };
                                    assert!(h.len.0 == l);
                                    kani::cover!(true, "long form");
                                }
                            }
                            None => {
                                // unknown code: read as UN with the long form
                                assert!(h.vr == VR::UN && *m == 12);
                                kani::cover!(true, "unrecognised code");
                            }
                        }
                    }
                }
                Err(_) => {
                    assert!(false, "12 bytes always hold a complete header");
                }
            }
            core::mem::forget(d);
        }
    };
}
hdr_decode_arbitrary!(c03_decode_arbitrary_le, ExplicitVRLittleEndianDecoder::default(), false);
hdr_decode_arbitrary!(c03_decode_arbitrary_be, ExplicitVRBigEndianDecoder::default(), true);

/// Implicit VR: the VR is the dictionary's relaxed VR (or UN); OW for pixel data / overlay data.
#[kani::proof]
#[kani::unwind(13)]
fn c03_decode_implicit_dict() {
    let buf: [u8; 8] = kani::any();
    let g = u16::from_le_bytes([buf[0], buf[1]]);
    let e = u16::from_le_bytes([buf[2], buf[3]]);
    let l = u32::from_le_bytes([buf[4], buf[5], buf[6], buf[7]]);
    let has: bool = kani::any();
    let vvr = any_vvr();
    let dec = ImplicitVRLittleEndianDecoder::with_dict(StubDict::one(Tag(g, e), has, vvr));
    let mut src = &buf[..];
    let d = dec.decode_header(&mut src);
    match &d {
        Ok((h, m)) => {
            assert!(*m == 8 && src.len() == 0);
            assert!(h.tag == Tag(g, e) && h.len.0 == l);
            use dicom_core::dictionary::VirtualVr;
            let want = if (g == 0x7FE0 && e == 0x0010) || (g >> 8 == 0x60 && e == 0x3000) {
                VR::OW
            } else if !has {
                VR::UN
            } else {
                match vvr {
                    VirtualVr::Exact(v) => v,
                    VirtualVr::Xs => VR::US,
                    VirtualVr::Ox => VR::OW,
                    VirtualVr::Px => VR::OW,
                    VirtualVr::Lt => VR::OW,
                    _ => VR::UN,
                }
            };
            assert!(h.vr == want);
            kani::cover!(has && h.vr == VR::US, "dictionary VR used");
            kani::cover!(!has, "unknown attribute");
        }
        Err(_) => assert!(false),
    }
    core::mem::forget(d);
}

/// items and delimiters: tag + 32-bit length in the codec's byte order; decoders classify them
macro_rules! items {
    ($name:ident, $enc:expr, $dec:expr, $be:expr) => {
        #[kani::proof]
        #[kani::unwind(13)]
        fn $name() {
            let len: u32 = kani::any();
            let which: u8 = kani::any();
            kani::assume(which < 3);
            let enc = $enc;
            let mut buf = [0xAAu8; 8];
            let r = match which {
                0 => enc.encode_item_header(&mut buf[..], len),
                1 => enc.encode_item_delimiter(&mut buf[..]),
                _ => enc.encode_sequence_delimiter(&mut buf[..]),
            };
            assert!(r.is_ok());
            core::mem::forget(r);
            let el: u16 = match which { 0 => 0xE000, 1 => 0xE00D, _ => 0xE0DD };
            let l = if which == 0 { len } else { 0 };
            let want: [u8; 8] = if $be {
                [0xFF, 0xFE, (el >> 8) as u8, el as u8, (l >> 24) as u8, (l >> 16) as u8, (l >> 8) as u8, l as u8]
            } else {
                [0xFE, 0xFF, el as u8, (el >> 8) as u8, l as u8, (l >> 8) as u8, (l >> 16) as u8, (l >> 24) as u8]
            };
            let mut i = 0;
            while i < 8 {
                assert!(buf[i] == want[i]);
                i += 1;
            }
            let dec = $dec;
            let mut src = &buf[..];
            let d = dec.decode_item_header(&mut src);
            match &d {
                Ok(SequenceItemHeader::Item { len: dl }) => assert!(which == 0 && dl.0 == len),
                Ok(SequenceItemHeader::ItemDelimiter) => assert!(which == 1),
                Ok(SequenceItemHeader::SequenceDelimiter) => assert!(which == 2),
                Err(_) => assert!(false),
            }
            assert!(src.len() == 0);
            core::mem::forget(d);
            // read as an element header: UN, 8 bytes
            let mut src = &buf[..];
            let d = dec.decode_header(&mut src);
            match &d {
                Ok((h, m)) => assert!(*m == 8 && h.tag == Tag(0xFFFE, el) && h.len.0 == l && src.len() == 0),
                Err(_) => assert!(false),
            }
            core::mem::forget(d);
            kani::cover!(which == 0 && len == 0xFFFF_FFFF, "undefined-length item");
            kani::cover!(which == 2, "sequence delimiter");
        }
    };
}
items!(c03_items_explicit_le, ExplicitVRLittleEndianEncoder::default(), ExplicitVRLittleEndianDecoder::default(), false);
items!(c03_items_explicit_be, ExplicitVRBigEndianEncoder::default(), ExplicitVRBigEndianDecoder::default(), true);
items!(c03_items_implicit_le, ImplicitVRLittleEndianEncoder::default(), ImplicitVRLittleEndianDecoder::with_dict(StubDict::empty()), false);

/// all 65 536 two-byte codes: recognised iff one of the 34 defined codes, and maps to that VR;
/// to_bytes / from_str / to_string agree with the table.
#[kani::proof]
#[kani::unwind(4)]
fn c03_vr_codes() {
    let c: [u8; 2] = kani::any();
    let got = VR::from_binary(c);
    match code_index(c) {
        Some(i) => {
            assert!(got == Some(VRS[i]));
            let b = VRS[i].to_bytes();
            assert!(b[0] == c[0] && b[1] == c[1]);
            kani::cover!(i == 33, "last code");
        }
        None => {
            assert!(got.is_none());
            kani::cover!(c[0] == b'a' && c[1] == b'e', "lower case rejected");
        }
    }
}
