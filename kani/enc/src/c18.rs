//! C18 — encapsulation helpers: basic offset table of the default PixelDataWriter::encode, Fragments::new.
use crate::common::*;
use dicom_core::ops::AttributeOp;
use dicom_core::value::fragments::Fragments;
use dicom_encoding::adapters::{EncodeOptions, EncodeResult, PixelDataObject, PixelDataWriter, RawPixelData};
use std::borrow::Cow;

struct Obj { frames: u32 }
impl PixelDataObject for Obj {
    fn transfer_syntax_uid(&self) -> &str { "1.2.840.10008.1.2.1" }
    fn rows(&self) -> Option<u16> { Some(1) }
    fn cols(&self) -> Option<u16> { Some(1) }
    fn samples_per_pixel(&self) -> Option<u16> { Some(1) }
    fn bits_allocated(&self) -> Option<u16> { Some(8) }
    fn bits_stored(&self) -> Option<u16> { Some(8) }
    fn photometric_interpretation(&self) -> Option<&str> { Some("MONOCHROME2") }
    fn number_of_frames(&self) -> Option<u32> { Some(self.frames) }
    fn number_of_fragments(&self) -> Option<u32> { None }
    fn fragment(&self, _fragment: usize) -> Option<Cow<'_, [u8]>> { None }
    fn offset_table(&self) -> Option<Cow<'_, [u32]>> { None }
    fn raw_pixel_data(&self) -> Option<RawPixelData> { None }
}
/// a writer whose frames have solver-chosen sizes (the default `encode` is the code under test)
struct StubWriter { lens: [u8; 3] }
impl PixelDataWriter for StubWriter {
    fn encode_frame(&self, _src: &dyn PixelDataObject, frame: u32, _o: EncodeOptions, dst: &mut Vec<u8>) -> EncodeResult<Vec<AttributeOp>> {
        let n = self.lens[frame as usize] as usize;
        let z = [0xABu8; 8];
        dst.extend_from_slice(&z[..n]);
        Ok(Vec::new())
    }
}

macro_rules! bot {
    ($name:ident, $frames:expr) => {
        #[kani::proof]
        #[kani::unwind(12)]
        fn $name() {
            let lens: [u8; 3] = kani::any();
            kani::assume(lens[0] <= 6 && lens[1] <= 6 && lens[2] <= 6);
            let w = StubWriter { lens };
            let obj = Obj { frames: $frames };
            let mut frags: Vec<Vec<u8>> = Vec::new();
            let mut bot: Vec<u32> = Vec::new();
            let r = w.encode(&obj, EncodeOptions::default(), &mut frags, &mut bot);
            assert!(r.is_ok());
            assert!(bot.len() == $frames && frags.len() == $frames, "one offset table entry and one fragment per frame");
            // PS3.5 A.4: offset of the first byte of the item tag of each frame's first fragment, from the first item after the table;
            // a fragment occupies 8 header bytes plus its data padded to even length
            let mut expect = 0u32;
            let mut k = 0;
            while k < $frames {
                assert!(bot[k] == expect, "basic offset table entry is not the offset of that frame's first item");
                assert!(frags[k].len() == lens[k] as usize);
                expect += 8 + ((lens[k] as u32 + 1) & !1);
                k += 1;
            }
            core::mem::forget((r, frags, bot));
            kani::cover!(lens[0] % 2 == 1, "odd-sized first frame");
            kani::cover!(lens[0] == 0, "empty first frame");
        }
    };
}
bot!(c18_default_encode_bot_1frame, 1);
bot!(c18_default_encode_bot_2frames, 2);
bot!(c18_default_encode_bot_3frames, 3);

/// Fragments::new on small data: every fragment even, fragments concatenate to the data followed by zero padding, nothing dropped
macro_rules! frag_new {
    ($name:ident, $len:expr, $fs:expr) => {
        #[kani::proof]
        #[kani::unwind(12)]
        fn $name() {
            let d: [u8; 8] = kani::any();
            let f = Fragments::new(d[..$len].to_vec(), $fs);
            // the fragment list is private: observe it through the public conversion of a single frame
            let seq: dicom_core::value::PixelFragmentSequence<Vec<u8>> = vec![f].into();
            let frs = seq.fragments();
            let mut total = 0usize;
            let mut i = 0;
            while i < frs.len() {
                let fr = &frs[i];
                assert!(fr.len() % 2 == 0, "fragment of odd length");
                let mut j = 0;
                while j < fr.len() {
                    if total + j < $len { assert!(fr[j] == d[total + j], "fragment bytes differ from the data"); } else { assert!(fr[j] == 0, "padding is not zero"); }
                    j += 1;
                }
                total += fr.len();
                i += 1;
            }
            assert!(total >= $len, "data dropped by fragmentation");
            assert!(total < $len + 2 || ($fs != 0 && total < $len + $fs + 2), "more padding than one fragment");
            core::mem::forget(seq);
            kani::cover!(true, "fragmented");
        }
    };
}
frag_new!(c18_fragments_new_3_0, 3, 0);
frag_new!(c18_fragments_new_4_0, 4, 0);
frag_new!(c18_fragments_new_5_2, 5, 2);
frag_new!(c18_fragments_new_6_4, 6, 4);
frag_new!(c18_fragments_new_5_3, 5, 3);
frag_new!(c18_fragments_new_1_6, 1, 6);
frag_new!(c18_fragments_new_0_0, 0, 0);
frag_new!(c18_fragments_new_0_2, 0, 2);
