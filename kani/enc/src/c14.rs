//! C14 (tag half) / C05 (textual tag) — tags have a lossless text syntax; every other string is rejected, never a panic.
use crate::common::*;
use core::fmt::Write;
use core::str::FromStr;
use dicom_core::Tag;

fn hexval(c: u8) -> Option<u16> {
    match c {
        b'0'..=b'9' => Some((c - b'0') as u16),
        b'a'..=b'f' => Some((c - b'a' + 10) as u16),
        b'A'..=b'F' => Some((c - b'A' + 10) as u16),
        _ => None,
    }
}
fn four(b: &[u8]) -> Option<u16> {
    match (hexval(b[0]), hexval(b[1]), hexval(b[2]), hexval(b[3])) {
        (Some(a), Some(b_), Some(c), Some(d)) => Some((a << 12) | (b_ << 8) | (c << 4) | d),
        _ => None,
    }
}
/// reference recogniser of the three accepted forms (hex digits of either case)
fn reference(b: &[u8]) -> Option<(u16, u16)> {
    match b.len() {
        8 => match (four(&b[0..4]), four(&b[4..8])) { (Some(g), Some(e)) => Some((g, e)), _ => None },
        9 => if b[4] == b',' { match (four(&b[0..4]), four(&b[5..9])) { (Some(g), Some(e)) => Some((g, e)), _ => None } } else { None },
        11 => if b[0] == b'(' && b[5] == b',' && b[10] == b')' { match (four(&b[1..5]), four(&b[6..10])) { (Some(g), Some(e)) => Some((g, e)), _ => None } } else { None },
        _ => None,
    }
}

macro_rules! parse_any {
    ($name:ident, $n:expr, $unwind:expr) => {
        #[kani::proof]
        #[kani::unwind($unwind)]
        fn $name() {
            let b: [u8; $n] = kani::any();
            let s = core::str::from_utf8(&b);
            kani::assume(s.is_ok());
            let s = s.unwrap();
            let r = Tag::from_str(s);          // must not panic for ANY string of this length
            match (&r, reference(&b)) {
                (Ok(t), Some((g, e))) => { assert!(t.0 == g && t.1 == e); }
                (Err(_), None) => { kani::cover!($n == 0 || b.first().map_or(false, |x| *x >= 0x80), "non-ASCII text (or the empty string) rejected"); }
                (Ok(_), None) => assert!(false, "accepts a string that is none of the three forms"),
                (Err(_), Some(_)) => assert!(false, "rejects a well-formed tag"),
            }
            kani::cover!(r.is_ok() || !($n == 8 || $n == 9 || $n == 11), "accepted (lengths 8, 9, 11)");
            core::mem::forget(r);
        }
    };
}
parse_any!(c14_parse_len8, 8, 10);
parse_any!(c14_parse_len9, 9, 11);
parse_any!(c14_parse_len11, 11, 13);
parse_any!(c14_parse_len0, 0, 4);
parse_any!(c14_parse_len7, 7, 9);
parse_any!(c14_parse_len10, 10, 12);
parse_any!(c14_parse_len12, 12, 14);

/// canonical printed form and print -> parse identity for all 2^32 tags
#[kani::proof]
#[kani::unwind(13)]
fn c14_display_roundtrip() {
    let t = Tag(kani::any(), kani::any());
    let mut s: Sink<16> = Sink::new();
    let r = write!(s, "{}", t);
    assert!(r.is_ok());
    assert!(s.n == 11);
    let up = |v: u16, k: u32| { let d = ((v >> (12 - 4 * k)) & 0xF) as u8; if d < 10 { b'0' + d } else { b'A' + d - 10 } };
    let want = [b'(', up(t.0, 0), up(t.0, 1), up(t.0, 2), up(t.0, 3), b',', up(t.1, 0), up(t.1, 1), up(t.1, 2), up(t.1, 3), b')'];
    let mut i = 0;
    while i < 11 {
        assert!(s.b[i] == want[i], "printed form is not (GGGG,EEEE) upper case");
        i += 1;
    }
    let text = core::str::from_utf8(&s.b[..11]).unwrap();
    let back = Tag::from_str(text);
    match &back { Ok(b) => assert!(*b == t), Err(_) => assert!(false, "printed tag does not parse back") }
    core::mem::forget(back);
    kani::cover!(t.0 == 0xFFFE && t.1 == 0xE0DD, "delimiter tag");
}

/// the two other accepted forms, lower case, for all tags
#[kani::proof]
#[kani::unwind(13)]
fn c14_other_forms_roundtrip() {
    let t = Tag(kani::any(), kani::any());
    let lo = |v: u16, k: u32| { let d = ((v >> (12 - 4 * k)) & 0xF) as u8; if d < 10 { b'0' + d } else { b'a' + d - 10 } };
    let a = [lo(t.0, 0), lo(t.0, 1), lo(t.0, 2), lo(t.0, 3), lo(t.1, 0), lo(t.1, 1), lo(t.1, 2), lo(t.1, 3)];
    let b = [lo(t.0, 0), lo(t.0, 1), lo(t.0, 2), lo(t.0, 3), b',', lo(t.1, 0), lo(t.1, 1), lo(t.1, 2), lo(t.1, 3)];
    let ra = Tag::from_str(core::str::from_utf8(&a).unwrap());
    let rb = Tag::from_str(core::str::from_utf8(&b).unwrap());
    match (&ra, &rb) { (Ok(x), Ok(y)) => assert!(*x == t && *y == t), _ => assert!(false) }
    core::mem::forget((ra, rb));
    kani::cover!(t.0 == 0xABCD, "hex letters");
}
