//! C26 (asynchronous writer) — AsyncPDataWriter::poll_write produces the same bytes as the synchronous writer under any pattern
//! of partial writes and not-ready results from the transport (bounded schedules).
use crate::common::*;
use core::pin::Pin;
use core::task::{Context, Poll, Waker};
use dicom_ul::association::{AsyncPDataWriter, PDataWriter};
use std::io::Write;
use tokio::io::AsyncWrite;

/// transport whose behaviour per call is chosen by the solver: Ready(Ok(len)), Ready(Ok(1)), or Pending (at most `pend` times)
struct T {
    buf: [u8; 64],
    n: usize,
    pend_left: u8,
    calls: u8,
}
impl AsyncWrite for T {
    fn poll_write(mut self: Pin<&mut Self>, _cx: &mut Context<'_>, data: &[u8]) -> Poll<std::io::Result<usize>> {
        self.calls += 1;
        if self.pend_left > 0 && kani::any() {
            self.pend_left -= 1;
            return Poll::Pending;
        }
        // partial write: the transport takes either everything or just the first byte (two extremes of "1 <= k <= len")
        let k: usize = if kani::any() { data.len() } else { 1 };
        kani::assume(data.len() >= 1);
        let at = self.n;
        if at + k > 64 { panic!("transport buffer too small"); }
        let mut i = 0;
        while i < data.len() {
            if i < k { self.buf[at + i] = data[i]; }
            i += 1;
        }
        self.n += k;
        Poll::Ready(Ok(k))
    }
    fn poll_flush(self: Pin<&mut Self>, _cx: &mut Context<'_>) -> Poll<std::io::Result<()>> { Poll::Ready(Ok(())) }
    fn poll_shutdown(self: Pin<&mut Self>, _cx: &mut Context<'_>) -> Poll<std::io::Result<()>> { Poll::Ready(Ok(())) }
}

/// drive poll_write like tokio's write_all does: re-poll with the same buffer while Pending, advance by n on Ready(Ok(n)).
/// Returns false if the writer reported Ok(0) for a non-empty buffer or an error.
fn write_all_async(w: &mut AsyncPDataWriter<&mut T>, mut data: &[u8], cx: &mut Context<'_>, max_polls: usize) -> bool {
    let mut polls = 0;
    while !data.is_empty() {
        if polls >= max_polls { return true; }          // schedule bound reached: stop driving (stated bound)
        polls += 1;
        match Pin::new(&mut *w).poll_write(cx, data) {
            Poll::Pending => {}
            Poll::Ready(Ok(0)) => return false,
            Poll::Ready(Ok(n)) => { data = &data[n..]; }
            Poll::Ready(Err(_)) => return false,
        }
    }
    true
}

macro_rules! async_vs_sync {
    ($name:ident, $m:expr, $a:expr, $b:expr, $pend:expr) => {
        #[kani::proof]
        #[kani::unwind(20)]
        fn $name() {
            let pc: u8 = kani::any();
            let data: [u8; 12] = kani::any();
            // reference: the synchronous writer on a plain sink (its own obligations are checked by the c26_w_* harnesses)
            let mut sink: CountW<64> = CountW::new();
            {
                let mut w = PDataWriter::verif_new(&mut sink, pc, $m);
                let r1 = w.write_all(&data[..$a]);
                let r2 = w.write_all(&data[$a..$a + $b]);
                assert!(r1.is_ok() && r2.is_ok());
                core::mem::forget((r1, r2));
                core::mem::forget(w);          // no finish: compare what was sent so far
            }
            let mut t = T { buf: [0u8; 64], n: 0, pend_left: $pend, calls: 0 };
            let waker = Waker::noop();
            let mut cx = Context::from_waker(&waker);
            let ok;
            {
                let mut w = AsyncPDataWriter::verif_new(&mut t, pc, $m);
                let ok1 = write_all_async(&mut w, &data[..$a], &mut cx, 8);
                let ok2 = ok1 && write_all_async(&mut w, &data[$a..$a + $b], &mut cx, 8);
                ok = ok1 && ok2;
                core::mem::forget(w);
            }
            assert!(ok, "poll_write reported Ok(0) / an error on a working transport");
            // the transport saw a prefix-compatible byte stream: same bytes as the synchronous writer when no poll is left pending
            if t.pend_left == $pend || t.n == sink.n {
                assert!(t.n == sink.n, "asynchronous writer sent a different number of bytes");
                let mut i = 0;
                while i < 64 {
                    if i < sink.n { assert!(t.buf[i] == sink.buf[i], "asynchronous writer sent different bytes"); }
                    i += 1;
                }
            } else {
                // some poll stayed pending within the bound: what was sent so far must be a prefix of the synchronous bytes
                assert!(t.n <= sink.n);
                let mut i = 0;
                while i < 64 {
                    if i < t.n { assert!(t.buf[i] == sink.buf[i], "asynchronous writer sent different bytes"); }
                    i += 1;
                }
            }
            kani::cover!(t.calls >= 2, "transport took the PDU in several partial writes");
            kani::cover!(t.n > 0, "something was sent");
        }
    };
}
async_vs_sync!(c26_async_m10_a4_b2_p0, 10, 4, 2, 0);     // buffer exactly full, then a non-empty write
async_vs_sync!(c26_async_m10_a5_b1_p0, 10, 5, 1, 0);
async_vs_sync!(c26_async_m10_a5_b1_p1, 10, 5, 1, 1);     // one Pending allowed anywhere
async_vs_sync!(c26_async_m10_a4_b2_p1, 10, 4, 2, 1);
async_vs_sync!(c26_async_m7_a1_b2_p1, 7, 1, 2, 1);
