//! C26 (asynchronous writer) — AsyncPDataWriter::poll_write produces the same bytes as the synchronous writer under any pattern
//! of partial writes and not-ready results from the transport (bounded schedules).
use crate::common::*;
use core::pin::Pin;
use core::task::{Context, Poll, Waker};
use dicom_ul::association::{AsyncPDataWriter, PDataWriter};
use std::io::Write;
use tokio::io::AsyncWrite;

/// transport with a scripted behaviour per call (concrete per harness instance, DESIGN §1.2 rule 3):
/// 0 = takes everything, 1 = takes one byte, 2 = not ready (Pending); after the script ends it takes everything.
struct T {
    buf: [u8; 64],
    n: usize,
    script: [u8; 6],
    calls: usize,
}
impl AsyncWrite for T {
    fn poll_write(mut self: Pin<&mut Self>, _cx: &mut Context<'_>, data: &[u8]) -> Poll<std::io::Result<usize>> {
        let act = if self.calls < 6 { self.script[self.calls] } else { 0 };
        self.calls += 1;
        if act == 2 {
            return Poll::Pending;
        }
        let k: usize = if act == 1 { 1 } else { data.len() };
        let at = self.n;
        if at + k > 64 { panic!("transport buffer too small"); }
        let mut i = 0;
        while i < data.len() {
            if i < k { self.buf[at + i] = data[i]; }
            i += 1;
        }
        self.n += k;
        Poll::Ready(Ok(k))
    }
    fn poll_flush(self: Pin<&mut Self>, _cx: &mut Context<'_>) -> Poll<std::io::Result<()>> { Poll::Ready(Ok(())) }
    fn poll_shutdown(self: Pin<&mut Self>, _cx: &mut Context<'_>) -> Poll<std::io::Result<()>> { Poll::Ready(Ok(())) }
}

/// drive poll_write like tokio's write_all does: re-poll with the same buffer while Pending, advance by n on Ready(Ok(n)).
/// Returns false if the writer reported Ok(0) for a non-empty buffer or an error.
fn write_all_async(w: &mut AsyncPDataWriter<&mut T>, mut data: &[u8], cx: &mut Context<'_>, max_polls: usize) -> bool {
    let mut polls = 0;
    while !data.is_empty() {
        if polls >= max_polls { return true; }          // schedule bound reached: stop driving (stated bound)
        polls += 1;
        match Pin::new(&mut *w).poll_write(cx, data) {
            Poll::Pending => {}
            Poll::Ready(Ok(0)) => return false,
            Poll::Ready(Ok(n)) => { data = &data[n..]; }
            Poll::Ready(Err(_)) => return false,
        }
    }
    true
}

macro_rules! async_vs_sync {
    ($name:ident, $m:expr, $a:expr, $b:expr, $script:expr) => {
        #[kani::proof]
        #[kani::unwind(66)]
        fn $name() {
            let pc: u8 = kani::any();
            let data: [u8; 12] = kani::any();
            // reference: the synchronous writer on a plain sink (its own obligations are checked by the c26_w_* harnesses)
            let mut sink: CountW<64> = CountW::new();
            {
                let mut w = PDataWriter::verif_new(&mut sink, pc, $m);
                let r1 = w.write_all(&data[..$a]);
                let r2 = w.write_all(&data[$a..$a + $b]);
                assert!(r1.is_ok() && r2.is_ok());
                core::mem::forget((r1, r2));
                core::mem::forget(w);          // no finish: compare what was sent so far
            }
            let mut t = T { buf: [0u8; 64], n: 0, script: $script, calls: 0 };
            let waker = Waker::noop();
            let mut cx = Context::from_waker(&waker);
            let ok;
            {
                let mut w = AsyncPDataWriter::verif_new(&mut t, pc, $m);
                let ok1 = write_all_async(&mut w, &data[..$a], &mut cx, 12);
                let ok2 = ok1 && write_all_async(&mut w, &data[$a..$a + $b], &mut cx, 12);
                ok = ok1 && ok2;
                core::mem::forget(w);
            }
            assert!(ok, "poll_write reported Ok(0) / an error on a working transport");
            // every scripted schedule ends within the poll bound, so the transport must have seen exactly the synchronous bytes
            assert!(t.n == sink.n, "asynchronous writer sent a different number of bytes than the synchronous writer");
            let mut i = 0;
            while i < 64 {
                if i < sink.n { assert!(t.buf[i] == sink.buf[i], "asynchronous writer sent different bytes"); }
                i += 1;
            }
            // PDU length field of the first PDU never exceeds the maximum
            if t.n >= 6 {
                let l = u32::from_be_bytes([t.buf[2], t.buf[3], t.buf[4], t.buf[5]]);
                assert!(l <= $m, "PDU length exceeds the maximum");
            }
            kani::cover!(t.n > 0, "something was sent");
        }
    };
}
// max 10 => 4 payload bytes per PDU; max 8 => 2 payload bytes per PDU
async_vs_sync!(c26_async_m10_a4_b2_full, 10, 4, 2, [0, 0, 0, 0, 0, 0]);       // buffer exactly full, then a non-empty write
async_vs_sync!(c26_async_m10_a5_b1_full, 10, 5, 1, [0, 0, 0, 0, 0, 0]);
async_vs_sync!(c26_async_m10_a4_b2_pend, 10, 4, 2, [2, 0, 2, 0, 0, 0]);       // Pending while the full buffer is sent
async_vs_sync!(c26_async_m10_a4_b2_one, 10, 4, 2, [1, 2, 1, 0, 0, 0]);        // partial writes and Pending interleaved
async_vs_sync!(c26_async_m8_a2_b3_full, 8, 2, 3, [0, 0, 0, 0, 0, 0]);         // exactly full, then a chunk larger than one PDU payload
async_vs_sync!(c26_async_m8_a2_b3_pend, 8, 2, 3, [2, 1, 2, 0, 0, 0]);
async_vs_sync!(c26_async_m10_a9_b3_one, 10, 9, 3, [1, 1, 2, 0, 1, 0]);
