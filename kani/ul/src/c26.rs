//! C26 — P-DATA fragmentation: one step of PDataWriter::write / finish from every fill level of the buffer.
use crate::common::*;
use dicom_ul::association::PDataWriter;
use std::io::Write;

/// Parse the PDUs the writer emitted (independent PS3.8 9.3.5 reading) and check the per-PDU obligations.
/// Returns (number of PDUs, total payload bytes, payload, last flags ok).
fn check_pdus(out: &[u8], n: usize, max_pdu: u32, pc: u8, payload: &mut [u8; 32]) -> (usize, usize, bool) {
    let mut at = 0usize;
    let mut pdus = 0usize;
    let mut total = 0usize;
    let mut last_seen = false;
    let mut ok = true;
    // at most 4 PDUs in these harnesses
    let mut k = 0;
    while k < 4 {
        if at >= n {
            break;
        }
        // PDU header: type 04, reserved, 32-bit length BE
        if n - at < 12 { ok = false; break; }
        if out[at] != 0x04 || out[at + 1] != 0x00 { ok = false; }
        let plen = u32::from_be_bytes([out[at + 2], out[at + 3], out[at + 4], out[at + 5]]);
        if plen > max_pdu { ok = false; }                       // PDU length never exceeds the maximum
        let ilen = u32::from_be_bytes([out[at + 6], out[at + 7], out[at + 8], out[at + 9]]);
        if ilen + 4 != plen { ok = false; }                     // exactly one PDV per PDU
        if out[at + 10] != pc { ok = false; }                   // for the given presentation context
        let hdr = out[at + 11];
        if hdr & 0xFC != 0 || hdr & 0x01 != 0 { ok = false; }   // data (not command) fragment, only the last bit may be set
        if last_seen { ok = false; }                            // nothing follows the PDU marked last
        if hdr & 0x02 != 0 { last_seen = true; }
        if ilen < 2 { ok = false; break; }
        let dlen = (ilen - 2) as usize;
        if at + 12 + dlen > n || total + dlen > 32 { ok = false; break; }
        let mut j = 0;
        while j < dlen {
            payload[total + j] = out[at + 12 + j];
            j += 1;
        }
        total += dlen;
        at += 12 + dlen;
        pdus += 1;
        k += 1;
    }
    if at != n { ok = false; }
    (pdus, total, ok && (pdus == 0 || last_seen))
}

/// max_pdu_length M, first write of A bytes, second write of B bytes, then finish.
macro_rules! two_writes {
    ($name:ident, $m:expr, $a:expr, $b:expr) => {
        #[kani::proof]
        #[kani::unwind(34)]
        fn $name() {
            let pc: u8 = kani::any();
            let data: [u8; 16] = kani::any();
            let mut sink: CountW<96> = CountW::new();
            let mut accepted = 0usize;
            {
                let mut w = PDataWriter::verif_new(&mut sink, pc, $m);
                let r1 = w.write(&data[..$a]);
                let n1 = match &r1 { Ok(n) => *n, Err(_) => { assert!(false, "write failed on a working transport"); 0 } };
                assert!(n1 <= $a);
                assert!($a == 0 || n1 > 0, "a non-empty write accepted 0 bytes (write_all would fail with WriteZero)");
                let r2 = w.write(&data[n1..n1 + $b]);
                let n2 = match &r2 { Ok(n) => *n, Err(_) => { assert!(false, "write failed on a working transport"); 0 } };
                assert!(n2 <= $b);
                assert!($b == 0 || n2 > 0, "a non-empty write accepted 0 bytes (write_all would fail with WriteZero)");
                accepted = n1 + n2;
                let f = w.finish();
                assert!(f.is_ok());
                core::mem::forget((r1, r2, f));
            }
            let mut payload = [0u8; 32];
            let (pdus, total, ok) = check_pdus(&sink.buf, sink.n, $m, pc, &mut payload);
            assert!(ok, "emitted bytes are not a sequence of well-formed single-PDV P-DATA PDUs within the maximum length, last one marked last");
            assert!(total == accepted, "payloads do not add up to the accepted input");
            let mut i = 0;
            while i < 16 {
                if i < accepted { assert!(payload[i] == data[i], "payload differs from the input"); }
                i += 1;
            }
            kani::cover!(pdus >= 1 || ($a + $b == 0), "PDUs emitted and checked");
        }
    };
}
// max_pdu_length 10 => buffer capacity 16 = 12 header bytes + 4 payload bytes per PDU.
two_writes!(c26_w_m10_a1_b1, 10, 1, 1);
two_writes!(c26_w_m10_a3_b2, 10, 3, 2);
two_writes!(c26_w_m10_a4_b2, 10, 4, 2);     // first write fills the buffer exactly
two_writes!(c26_w_m10_a4_b0, 10, 4, 0);
two_writes!(c26_w_m10_a5_b1, 10, 5, 1);     // first write overflows
two_writes!(c26_w_m10_a0_b4, 10, 0, 4);
two_writes!(c26_w_m10_a2_b2, 10, 2, 2);     // two writes add up to exactly full
two_writes!(c26_w_m10_a9_b3, 10, 9, 3);
two_writes!(c26_w_m7_a1_b1, 7, 1, 1);       // one payload byte per PDU
two_writes!(c26_w_m7_a2_b1, 7, 2, 1);
two_writes!(c26_w_m12_a6_b6, 12, 6, 6);
