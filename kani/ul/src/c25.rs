//! C25 — PDUs are encoded and decoded losslessly with exact framing; strict prefixes read as incomplete; strict mode.
use crate::common::*;
use dicom_ul::pdu::{read_pdu, write_pdu, AbortRQServiceProviderReason, AbortRQSource, AssociationRJ, AssociationRJResult,
                    AssociationRJServiceUserReason, AssociationRJSource, PDataValue, PDataValueType, Pdu};

const MAXLEN: u32 = 16_378;

fn same_bytes(a: &[u8], b: &[u8]) -> bool {
    if a.len() != b.len() { return false; }
    let mut i = 0;
    let mut ok = true;
    while i < a.len() { if a[i] != b[i] { ok = false; } i += 1; }
    ok
}

/// write `pdu`, check the PS3.8 framing of the bytes (type, reserved, 32-bit BE length == bytes that follow), read it back from the
/// exact bytes (equal value, all bytes consumed) and from the strict prefix of length K (incomplete, not an error).
macro_rules! roundtrip {
    ($name:ident, $unwind:expr, $ty:expr, $total:expr, $k:expr, $mk:expr) => {
        crate::ul_proof! {
        #[kani::unwind($unwind)]
        fn $name() {
            let pdu: Pdu = $mk;
            let mut w: CountW<48> = CountW::new();
            let r = write_pdu(&mut w, &pdu);
            assert!(r.is_ok(), "writing a well-formed PDU failed");
            core::mem::forget(r);
            assert!(w.n == $total, "unexpected encoded size");
            assert!(w.buf[0] == $ty && w.buf[1] == 0, "PDU type / reserved byte");
            let l = u32::from_be_bytes([w.buf[2], w.buf[3], w.buf[4], w.buf[5]]);
            assert!(l as usize == $total - 6, "PDU length field != number of bytes that follow");
            // exact bytes
            let mut src = &w.buf[..$total];
            let back = read_pdu(&mut src, MAXLEN, false);
            match &back {
                Ok(Some(p)) => { assert!(*p == pdu, "PDU does not read back equal"); assert!(src.len() == 0, "bytes left over"); }
                Ok(None) => assert!(false, "complete PDU read as incomplete"),
                Err(_) => assert!(false, "complete PDU rejected"),
            }
            core::mem::forget(back);
            // strict prefix of K bytes
            let mut pre = &w.buf[..$k];
            let part = read_pdu(&mut pre, MAXLEN, false);
            match &part {
                Ok(None) => {}
                Ok(Some(_)) => assert!(false, "a strict prefix decoded as a PDU"),
                Err(_) => assert!(false, "a strict prefix is an error instead of incomplete"),
            }
            core::mem::forget(part);
            core::mem::forget(pdu);
            kani::cover!(true, "round trip completed");
        }
        }
    };
}

fn any_abort_source() -> AbortRQSource {
    let k: u8 = kani::any();
    match k {
        0 => AbortRQSource::ServiceUser,
        1 => AbortRQSource::ServiceProvider(AbortRQServiceProviderReason::ReasonNotSpecified),
        2 => AbortRQSource::ServiceProvider(AbortRQServiceProviderReason::UnrecognizedPdu),
        3 => AbortRQSource::ServiceProvider(AbortRQServiceProviderReason::UnexpectedPdu),
        4 => AbortRQSource::ServiceProvider(AbortRQServiceProviderReason::UnrecognizedPduParameter),
        5 => AbortRQSource::ServiceProvider(AbortRQServiceProviderReason::UnexpectedPduParameter),
        _ => AbortRQSource::ServiceProvider(AbortRQServiceProviderReason::InvalidPduParameter),
    }
}

roundtrip!(c25_release_rq_p9, 12, 0x05, 10, 9, Pdu::ReleaseRQ);
roundtrip!(c25_release_rq_p5, 12, 0x05, 10, 5, Pdu::ReleaseRQ);
roundtrip!(c25_release_rq_p1, 12, 0x05, 10, 1, Pdu::ReleaseRQ);
roundtrip!(c25_release_rp_p6, 12, 0x06, 10, 6, Pdu::ReleaseRP);
// A-ABORT and A-ASSOCIATE-RJ are not harnessed on Engine K: their reader path calls `Bytes::copy_to_bytes` / `split_to` on a
// `bytes::Bytes`, whose promotable vtables tag the low bit of a pointer; CBMC's pointer model reports spurious "pointer invalid"
// dereferences there (measured: every assertion of the harness fails at once and the counterexample does not replay natively).
// one PDV with 2 symbolic payload bytes: 6 + 4 + 2 + 2 = 14 bytes
roundtrip!(c25_pdata_1pdv_p13, 18, 0x04, 14, 13, {
    let d: [u8; 2] = kani::any();
    Pdu::PData { data: vec![PDataValue { presentation_context_id: kani::any(), value_type: if kani::any() { PDataValueType::Command } else { PDataValueType::Data }, is_last: kani::any(), data: d.to_vec() }] }
});
roundtrip!(c25_pdata_1pdv_p8, 18, 0x04, 14, 8, {
    let d: [u8; 2] = kani::any();
    Pdu::PData { data: vec![PDataValue { presentation_context_id: kani::any(), value_type: if kani::any() { PDataValueType::Command } else { PDataValueType::Data }, is_last: kani::any(), data: d.to_vec() }] }
});
// one PDV with an EMPTY payload (exactly one PDV header remains when it is parsed): 6 + 4 + 2 = 12 bytes
roundtrip!(c25_pdata_empty_pdv_p11, 16, 0x04, 12, 11, {
    Pdu::PData { data: vec![PDataValue { presentation_context_id: kani::any(), value_type: if kani::any() { PDataValueType::Command } else { PDataValueType::Data }, is_last: kani::any(), data: Vec::new() }] }
});
// (a harness with two PDVs, the last one empty, had no verdict within 1500 s on the unchanged tree - 8.7 GB after 32 min even with only the
// two last-fragment flags symbolic - and was removed; the single empty PDV above exercises the same "exactly one PDV header remains" case)
// unknown PDU type with 3 payload bytes
roundtrip!(c25_unknown_p8, 14, w_type(), 9, 8, Pdu::Unknown { pdu_type: w_type(), data: vec![1, 2, 3] });
fn w_type() -> u8 { 0x42 }

// Strict mode (PDU longer than the maximum is rejected) is not harnessed on Engine K: read_pdu on a 6-byte header with a symbolic
// length field did not finish in 1500 s (the whole 280-block function with its error formatting is reachable after the check).
