//! Harness crate `ul`: dicom-ul kernels (C25 PDUs, C26 P-DATA writer/reader, C27 reception, C28/C29 negotiation, C34 I/O faults)
#![allow(unused)]
#[path = "../../common/common.rs"]
pub mod common;

#[cfg(kani)]
mod c26;
#[cfg(kani)]
mod c26a;
#[cfg(kani)]
mod c25;

/// expands to a proof harness with the tracing stubs (reaching the real callsite registry ICEs kani-compiler 0.68)
#[macro_export]
macro_rules! ul_proof {
    ($(#[$m:meta])* fn $name:ident() $body:block) => {
        #[kani::proof]
        #[kani::stub(tracing_core::callsite::DefaultCallsite::interest, crate::common::trstub::tracing_interest_stub)]
        #[kani::stub(tracing::__macro_support::__is_enabled, crate::common::trstub::tracing_enabled_stub)]
        #[kani::stub(tracing_core::event::Event::dispatch, crate::common::trstub::tracing_dispatch_stub)]
        $(#[$m])*
        fn $name() $body
    };
}
