//! Harness crate `ul`: dicom-ul kernels (C25 PDUs, C26 P-DATA writer/reader, C27 reception, C28/C29 negotiation, C34 I/O faults)
#![allow(unused)]
#[path = "../../common/common.rs"]
pub mod common;

#[cfg(kani)]
mod c26;
