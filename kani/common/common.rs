//! Shared harness vocabulary (included by every harness crate with #[path]).
//! Nothing in here calls back into the code under test for its *oracles*:
//! the VR table, the PS3.5 header layout and the helpers are written from the standard.
#![allow(unused)]

use dicom_core::dictionary::{DataDictionary, DataDictionaryEntryRef, TagRange, VirtualVr};
use dicom_core::{Tag, VR};

/// the 34 VRs of PS3.5 Table 6.2-1
pub const VRS: [VR; 34] = [
    VR::AE, VR::AS, VR::AT, VR::CS, VR::DA, VR::DS, VR::DT, VR::FL, VR::FD, VR::IS, VR::LO, VR::LT,
    VR::OB, VR::OD, VR::OF, VR::OL, VR::OV, VR::OW, VR::PN, VR::SH, VR::SL, VR::SQ, VR::SS, VR::ST,
    VR::SV, VR::TM, VR::UC, VR::UI, VR::UL, VR::UN, VR::UR, VR::US, VR::UT, VR::UV,
];
/// their two-letter codes, same order (written out, not derived from dicom-rs)
pub const VR_CODES: [[u8; 2]; 34] = [
    *b"AE", *b"AS", *b"AT", *b"CS", *b"DA", *b"DS", *b"DT", *b"FL", *b"FD", *b"IS", *b"LO", *b"LT",
    *b"OB", *b"OD", *b"OF", *b"OL", *b"OV", *b"OW", *b"PN", *b"SH", *b"SL", *b"SQ", *b"SS", *b"ST",
    *b"SV", *b"TM", *b"UC", *b"UI", *b"UL", *b"UN", *b"UR", *b"US", *b"UT", *b"UV",
];
/// PS3.5 7.1.2: VRs with the 16-bit length form (Table 7.1-2)
pub const SHORT_FORM: [bool; 34] = [
    true, true, true, true, true, true, true, true, true, true, true, true, // AE..LT
    false, false, false, false, false, false, // OB OD OF OL OV OW
    true, true, true, // PN SH SL
    false, // SQ
    true, true, // SS ST
    false, // SV
    true, // TM
    false, // UC
    true, true, // UI UL
    false, false, // UN UR
    true, // US
    false, false, // UT UV
];

#[cfg(kani)]
pub fn any_vr_index() -> usize {
    let i: usize = kani::any();
    kani::assume(i < 34);
    i
}

/// index of a two-byte code in the table, if defined (reference recogniser; loop-free on purpose)
pub fn code_index(c: [u8; 2]) -> Option<usize> {
    Some(match &c {
        b"AE" => 0, b"AS" => 1, b"AT" => 2, b"CS" => 3, b"DA" => 4, b"DS" => 5, b"DT" => 6, b"FL" => 7, b"FD" => 8,
        b"IS" => 9, b"LO" => 10, b"LT" => 11, b"OB" => 12, b"OD" => 13, b"OF" => 14, b"OL" => 15, b"OV" => 16,
        b"OW" => 17, b"PN" => 18, b"SH" => 19, b"SL" => 20, b"SQ" => 21, b"SS" => 22, b"ST" => 23, b"SV" => 24,
        b"TM" => 25, b"UC" => 26, b"UI" => 27, b"UL" => 28, b"UN" => 29, b"UR" => 30, b"US" => 31, b"UT" => 32,
        b"UV" => 33,
        _ => return None,
    })
}

// ---------------------------------------------------------------------------------------------
// stub dictionary: answers for at most 3 tags, chosen by the solver, fixed for the harness run
// ---------------------------------------------------------------------------------------------
pub struct StubDict {
    pub tags: [Tag; 3],
    pub has: [bool; 3],
    pub e: [DataDictionaryEntryRef<'static>; 3],
}
impl DataDictionary for StubDict {
    type Entry = DataDictionaryEntryRef<'static>;
    fn by_name(&self, _n: &str) -> Option<&Self::Entry> {
        None
    }
    fn by_tag(&self, t: Tag) -> Option<&Self::Entry> {
        let mut i = 0;
        while i < 3 {
            if self.tags[i] == t {
                return if self.has[i] { Some(&self.e[i]) } else { None };
            }
            i += 1;
        }
        None
    }
}
impl StubDict {
    pub fn empty() -> Self {
        let e = || DataDictionaryEntryRef { tag: TagRange::Single(Tag(0, 0)), alias: "X", vr: VirtualVr::Exact(VR::UN) };
        StubDict { tags: [Tag(0, 0); 3], has: [false; 3], e: [e(), e(), e()] }
    }
    /// a dictionary that knows exactly one tag with the given (virtual) VR
    pub fn one(tag: Tag, has: bool, vr: VirtualVr) -> Self {
        let mut d = Self::empty();
        d.tags[0] = tag;
        d.has[0] = has;
        d.e[0] = DataDictionaryEntryRef { tag: TagRange::Single(tag), alias: "X", vr };
        d
    }
}
#[cfg(kani)]
pub fn any_vvr() -> VirtualVr {
    let k: u8 = kani::any();
    match k {
        0 => VirtualVr::Xs,
        1 => VirtualVr::Ox,
        2 => VirtualVr::Px,
        3 => VirtualVr::Lt,
        _ => VirtualVr::Exact(VRS[any_vr_index()]),
    }
}

// ---------------------------------------------------------------------------------------------
// counting / failing writer over a fixed buffer
// ---------------------------------------------------------------------------------------------
pub struct CountW<const N: usize> {
    pub buf: [u8; N],
    pub n: usize,
    /// byte offset from which writes fail (usize::MAX = never)
    pub fail_at: usize,
    /// false: fail with Err(Other); true: fail with Ok(0)
    pub zero_mode: bool,
    pub flushed: usize,
}
impl<const N: usize> CountW<N> {
    pub fn new() -> Self {
        CountW { buf: [0u8; N], n: 0, fail_at: usize::MAX, zero_mode: false, flushed: 0 }
    }
    pub fn failing(fail_at: usize, zero_mode: bool) -> Self {
        CountW { buf: [0u8; N], n: 0, fail_at, zero_mode, flushed: 0 }
    }
}
impl<const N: usize> std::io::Write for CountW<N> {
    fn write(&mut self, data: &[u8]) -> std::io::Result<usize> {
        let mut k = data.len();
        if self.fail_at != usize::MAX {
            if self.n >= self.fail_at {
                if self.zero_mode {
                    return Ok(0);
                }
                return Err(std::io::Error::from(std::io::ErrorKind::Other));
            }
            if self.n + k > self.fail_at {
                k = self.fail_at - self.n;
            }
        }
        if self.n + k > N {
            // harness buffer too small: make it visible instead of silently dropping
            panic!("CountW overflow");
        }
        self.buf[self.n..self.n + k].copy_from_slice(&data[..k]);
        self.n += k;
        Ok(k)
    }
    fn flush(&mut self) -> std::io::Result<()> {
        self.flushed += 1;
        Ok(())
    }
}

// ---------------------------------------------------------------------------------------------
// fixed-size fmt sink + replacement for alloc::fmt::format (rule 5 of DESIGN §1.2)
// ---------------------------------------------------------------------------------------------
pub struct Sink<const N: usize> {
    pub b: [u8; N],
    pub n: usize,
}
impl<const N: usize> Sink<N> {
    pub fn new() -> Self {
        Sink { b: [0u8; N], n: 0 }
    }
    pub fn bytes(&self) -> &[u8] {
        &self.b[..self.n]
    }
}
impl<const N: usize> core::fmt::Write for Sink<N> {
    fn write_str(&mut self, s: &str) -> core::fmt::Result {
        let k = s.len();
        if self.n + k > N {
            return Err(core::fmt::Error);
        }
        self.b[self.n..self.n + k].copy_from_slice(s.as_bytes());
        self.n += k;
        Ok(())
    }
}
/// stub for `alloc::fmt::format`: runs the same core::fmt machinery into a fixed sink and
/// allocates the String once.
pub fn format_stub(args: core::fmt::Arguments<'_>) -> String {
    let mut s: Sink<40> = Sink::new();
    let _ = core::fmt::write(&mut s, args);
    let mut out = String::with_capacity(40);
    // SAFETY-free: bytes come from &str pieces, so they are valid UTF-8
    out.push_str(unsafe { core::str::from_utf8_unchecked(&s.b[..s.n]) });
    out
}

// tracing stubs (logging gets an empty body; reaching the real callsite registry ICEs kani-compiler)
#[cfg(feature = "tr")]
pub mod trstub {
    pub fn tracing_interest_stub(_c: &tracing_core::callsite::DefaultCallsite) -> tracing_core::Interest {
        tracing_core::Interest::never()
    }
    pub fn tracing_enabled_stub(_m: &'static tracing_core::Metadata<'static>, _i: tracing_core::Interest) -> bool {
        false
    }
    pub fn tracing_dispatch_stub<'a>(_m: &'static tracing_core::Metadata<'static>, _f: &'a tracing_core::field::ValueSet<'_>)
    where
        'a: 'a,
    {
    }
}
