#!/bin/bash
# usage: tools/mutcheck.sh <patch.diff> <property-id>...   (development aid, not a registered check)
# Applies the patch to a scratch worktree of /repo (never to /repo itself), runs the quick checks against it with their own
# build area, prints one line per check and removes the worktree again.
set -u
PATCH=$(readlink -f "$1"); shift
LANE=${MUT_LANE:-1}
WT=/tmp/vmut$LANE
exec 9>/tmp/vmut$LANE.lock; flock 9
git -C /repo worktree remove --force $WT >/dev/null 2>&1; rm -rf $WT
git -C /repo worktree add --detach $WT HEAD >/dev/null 2>&1 || { echo "worktree failed"; exit 3; }
if ! git -C $WT apply "$PATCH"; then echo "PATCH-DOES-NOT-APPLY $PATCH"; git -C /repo worktree remove --force $WT; exit 3; fi
cd /verif
for id in "$@"; do
  out=$(VERIF_REPO=$WT VERIF_BUILD=/verif/.build-mut$LANE VERIF_EVIDENCE=/verif/.build-mut$LANE/evidence ./check $id --tier ${TIER:-quick} 2>&1); rc=$?
  echo "MUT $(basename $(dirname $PATCH))/$(basename $PATCH) $id rc=$rc $(echo "$out" | grep -c '^VIOLATION') violation(s) $(echo "$out" | grep -m1 'violation:' | cut -c1-160)"
  [ -n "${MUT_VERBOSE:-}" ] && echo "$out" | tail -15
done
git -C /repo worktree remove --force $WT >/dev/null 2>&1; rm -rf $WT
