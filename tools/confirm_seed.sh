#!/bin/bash
# usage: tools/confirm_seed.sh <seeded-dir> <crate> <demo-destination-relative-to-repo> [extra cargo test args for the existing tests]
# Confirms in a scratch worktree of /repo: patch applies, crate's existing tests pass with it, demo FAILS with it and PASSES without it.
D=$(readlink -f $1); CRATE=$2; DEST=$3; shift 3
WT=/tmp/seedconfirm
exec 9>/tmp/seedconfirm.lock; flock 9
git -C /repo worktree remove --force $WT >/dev/null 2>&1; rm -rf $WT
git -C /repo worktree add --detach $WT HEAD >/dev/null 2>&1
export CARGO_TARGET_DIR=/tmp/seedconfirm-target CARGO_NET_OFFLINE=true
cd $WT
git apply $D/patch.diff || { echo "CONFIRM $(basename $D): PATCH DOES NOT APPLY"; exit 1; }
T=$(cargo test --offline -p $CRATE "$@" 2>&1 | grep "test result" | tr '\n' ' ')
case "$T" in *FAILED*) EX="existing tests: SOME FAIL ($T)";; *) EX="existing tests pass";; esac
mkdir -p $(dirname $DEST)
if [ -f $D/demo.diff ]; then git apply $D/demo.diff 2>/dev/null; fi
cp $D/demo.rs $DEST 2>/dev/null
NAME=$(basename $DEST .rs)
DC=${DEMO_CRATE:-$CRATE}   # the demonstration may live in another crate than the one whose existing tests are run
if [[ $DEST == */tests/* ]]; then RUN="cargo test --offline -p $DC $@ --test $NAME"; else RUN="cargo test --offline -p $DC $@ --lib $NAME"; fi
W=$($RUN 2>&1 | grep "test result" | tr '\n' ' ')
git apply -R $D/patch.diff
WO=$($RUN 2>&1 | grep "test result" | tr '\n' ' ')
echo "CONFIRM $(basename $D): $EX | demo with change: $W | demo without change: $WO"
cd /; git -C /repo worktree remove --force $WT >/dev/null 2>&1; rm -rf $WT
