"""Engine K: build the harness crates with kani-compiler, then drive goto-cc / goto-instrument /
CBMC per harness ourselves (same command lines kani-driver uses) so that every CBMC process has
its own timeout and memory cap and results are parsed from CBMC's JSON."""
import fcntl, glob, json, os, re, resource, shutil, subprocess, sys, time, threading

VERIF = os.path.dirname(os.path.dirname(os.path.abspath(__file__)))
REPO = os.environ.get("VERIF_REPO", "/repo")
BUILD = os.environ.get("VERIF_BUILD", os.path.join(VERIF, ".build"))
KANI_HOME = os.path.expanduser("~/.kani/kani-0.68.0")
KANI_LIB_C = os.path.join(KANI_HOME, "library/kani/kani_lib.c")

CBMC_BASE = ["--no-malloc-may-fail", "--no-undefined-shift-check", "--no-signed-overflow-check", "--nan-check",
             "--no-self-loops-to-assumptions", "--no-pointer-primitive-check", "--object-bits", "16"]


def _env():
    e = dict(os.environ)
    e["CARGO_NET_OFFLINE"] = "true"
    e.pop("RUSTUP_TOOLCHAIN", None)
    return e


class BuildError(Exception):
    pass


def materialize(group):
    """copy the harness crate into the build area with the repository path substituted"""
    src = os.path.join(VERIF, "kani", group)
    root = os.path.join(BUILD, group)
    crate = os.path.join(root, "crate")
    os.makedirs(crate, exist_ok=True)
    # sources (copy, not link: concrete playback edits them in place)
    dst_src = os.path.join(crate, "src")
    if os.path.isdir(dst_src):
        shutil.rmtree(dst_src)
    shutil.copytree(os.path.join(src, "src"), dst_src)
    dst_common = os.path.join(root, "common")
    if os.path.isdir(dst_common):
        shutil.rmtree(dst_common)
    shutil.copytree(os.path.join(VERIF, "kani", "common"), dst_common)
    toml = open(os.path.join(src, "Cargo.toml.in")).read().replace("@REPO@", REPO).replace("@VERIF@", VERIF)
    _write_if_changed(os.path.join(crate, "Cargo.toml"), toml)
    lock = open(os.path.join(REPO, "Cargo.lock")).read()
    lockp = os.path.join(crate, "Cargo.lock")
    if not os.path.exists(lockp):
        open(lockp, "w").write(lock)
    os.makedirs(os.path.join(crate, ".cargo"), exist_ok=True)
    _write_if_changed(os.path.join(crate, ".cargo", "config.toml"), "[net]\noffline = true\n")
    return root, crate


def _write_if_changed(p, s):
    if os.path.exists(p) and open(p).read() == s:
        return
    open(p, "w").write(s)


def build(group, log):
    """returns list of harness metadata dicts (pretty_name, mangled_name, goto_file, unwind)"""
    root, crate = materialize(group)
    target = os.path.join(root, "target")
    pkg = "vk-" + group
    # drop stale per-hash output directories of the harness crate only (deps stay cached)
    for d in glob.glob(os.path.join(target, "kani", "*", "debug", "build", pkg)):
        shutil.rmtree(d, ignore_errors=True)
    t0 = time.time()
    cmd = ["cargo", "kani", "--only-codegen", "-Z", "stubbing", "--target-dir", target]
    p = subprocess.run(cmd, cwd=crate, env=_env(), stdout=subprocess.PIPE, stderr=subprocess.STDOUT, text=True)
    open(log, "w").write(p.stdout)
    if p.returncode != 0:
        errs = [l for l in p.stdout.splitlines() if l.startswith("error")]
        raise BuildError("kani build of group %s failed (log: %s): %s" % (group, log, "; ".join(errs[:5])))
    metas = glob.glob(os.path.join(target, "kani", "*", "debug", "build", pkg, "*", "out", "*.kani-metadata.json"))
    if not metas:
        raise BuildError("no kani metadata for group " + group)
    metas.sort(key=os.path.getmtime)
    m = json.load(open(metas[-1]))
    hs = []
    for h in m["proof_harnesses"]:
        hs.append({"name": h["pretty_name"].split("::")[-1], "pretty": h["pretty_name"], "mangled": h["mangled_name"],
                   "goto": h["goto_file"], "unwind": h["attributes"].get("unwind_value"),
                   "stubs": [s.get("original", "") + " -> " + s.get("replacement", "") for s in h["attributes"].get("stubs", [])],
                   "file": h["original_file"], "line": h["original_start_line"]})
    return hs, time.time() - t0


def prepare(h, workdir):
    """goto-cc / goto-instrument steps of kani-driver; returns the path of the instrumented binary"""
    out = os.path.join(workdir, h["name"] + ".out")
    steps = [
        ["goto-cc", h["goto"], KANI_LIB_C, "-o", out],
        ["goto-cc", out, "--function", h["mangled"], "-o", out],
        ["goto-instrument", "--add-library", "--no-malloc-may-fail", out, out],
        ["goto-instrument", "--generate-function-body-options", "assert-false-assume-false", "--generate-function-body", ".*",
         "--drop-unused-functions", out, out],
        ["goto-instrument", "--ensure-one-backedge-per-target", out, out],
    ]
    for s in steps:
        p = subprocess.run(s, stdout=subprocess.PIPE, stderr=subprocess.STDOUT, text=True)
        if p.returncode != 0:
            raise BuildError("%s failed for %s: %s" % (s[0], h["name"], p.stdout[-400:]))
    return out


def _limits(mem_gb):
    def f():
        b = int(mem_gb * (1 << 30))
        resource.setrlimit(resource.RLIMIT_AS, (b, b))
        os.setsid()
    return f


def run_cbmc(h, binary, workdir, timeout_s, mem_gb, extra=None, seed=None):
    """returns a result dict: status in {pass, fail, inconclusive}"""
    cmd = ["cbmc"] + CBMC_BASE
    if h.get("unwind") is not None:
        cmd += ["--unwind", str(h["unwind"])]
    cmd += ["--sat-solver", "cadical", "--slice-formula"]
    if extra:
        cmd += extra
    cmd += [binary, "--json-ui"]
    jpath = os.path.join(workdir, h["name"] + ".json")
    t0 = time.time()
    res = {"harness": h["name"], "pretty": h.get("pretty"), "cmd": " ".join(cmd), "status": "inconclusive", "reason": "", "failed": [], "covers": {},
           "props": 0, "unwind": h.get("unwind"), "stubs": h.get("stubs", [])}
    with open(jpath, "w") as jf:
        try:
            p = subprocess.Popen(cmd, stdout=jf, stderr=subprocess.DEVNULL, preexec_fn=_limits(mem_gb))
            try:
                rc = p.wait(timeout=timeout_s)
            except subprocess.TimeoutExpired:
                try:
                    os.killpg(p.pid, 9)
                except Exception:
                    p.kill()
                p.wait()
                res["reason"] = "timeout after %ds" % timeout_s
                res["wall_s"] = time.time() - t0
                return res
        except Exception as e:
            res["reason"] = "cannot run cbmc: %s" % e
            res["wall_s"] = time.time() - t0
            return res
    res["wall_s"] = round(time.time() - t0, 2)
    try:
        ru = resource.getrusage(resource.RUSAGE_CHILDREN)
        res["maxrss_children_mb"] = ru.ru_maxrss // 1024
    except Exception:
        pass
    try:
        data = json.load(open(jpath))
    except Exception as e:
        res["reason"] = "cbmc output unreadable (rc=%s; out of memory under the %d GB cap?): %s" % (rc, mem_gb, str(e)[:80])
        return res
    results = None
    for e in data:
        if isinstance(e, dict):
            if "result" in e:
                results = e["result"]
            t = e.get("messageText", "")
            if t.startswith("Runtime decision procedure"):
                res["solver_s"] = _num(t)
            elif t.startswith("Runtime Symex"):
                res["symex_s"] = _num(t)
            elif t.startswith("size of program expression"):
                res["steps"] = int(re.findall(r"\d+", t)[0])
            elif "variables" in t and "clauses" in t:
                res["sat_size"] = t.strip()
            elif e.get("messageType") == "ERROR":
                res.setdefault("errors", []).append(t[:200])
    if results is None:
        res["reason"] = "cbmc produced no result (rc=%s; %s)" % (rc, "; ".join(res.get("errors", []))[:200])
        return res
    res["props"] = len(results)
    failed, unwind_fail, unsupported = [], [], []
    covers = {}
    for r in results:
        cls = r.get("sourceLocation", {}).get("propertyClass") or ""
        prop = r.get("property", "")
        st = r.get("status")
        desc = re.sub(r"^\[KANI_CHECK_ID_[^\]]*\]\s*", "", r.get("description", ""))
        if cls == "cover" or ".cover." in prop:
            covers[desc or prop] = (st == "FAILURE")  # cover is encoded as assert(!c): FAILURE = satisfied
            continue
        if cls == "reachability_check" or ".reachability_check." in prop:
            continue
        if st == "SUCCESS":
            continue
        if cls == "unwind" or ".unwind." in prop or "unwinding assertion" in desc:
            unwind_fail.append(prop)
        elif cls == "unsupported_construct" or ".unsupported_construct." in prop:
            unsupported.append(desc[:120])
        else:
            loc = r.get("sourceLocation", {})
            failed.append({"property": prop, "description": desc[:200], "file": loc.get("file"), "line": loc.get("line"),
                           "class": cls, "status": st})
    res["covers"] = covers
    res["failed"] = failed
    if failed:
        res["status"] = "fail"
        if unwind_fail:
            res["reason"] = "also: unwinding assertions failed"
    elif unwind_fail:
        res["reason"] = "unwinding assertion failed (bound too small): " + ", ".join(unwind_fail[:3])
    elif unsupported:
        res["reason"] = "unsupported construct reachable: " + "; ".join(unsupported[:3])
    elif not all(covers.values()):
        res["reason"] = "vacuity: cover point(s) not reached: " + "; ".join(k for k, v in covers.items() if not v)
    else:
        res["status"] = "pass"
    return res


def _num(t):
    m = re.findall(r"[-+0-9.eE]+s", t)
    try:
        return float(m[0][:-1])
    except Exception:
        return None


class GroupLock:
    def __init__(self, group):
        os.makedirs(os.path.join(BUILD, group), exist_ok=True)
        self.f = open(os.path.join(BUILD, group, ".lock"), "w")

    def __enter__(self):
        fcntl.flock(self.f, fcntl.LOCK_EX)
        return self

    def __exit__(self, *a):
        fcntl.flock(self.f, fcntl.LOCK_UN)
        self.f.close()
