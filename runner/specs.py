"""Per-property check specifications: which harnesses / Engine-M modules decide a property and in which tier."""

SPECS = {}

SPECS["C03"] = {
    "parts": [{"engine": "kani", "group": "enc", "select": r"^c03_", "mem_gb": 6,
               "timeout": {"quick": 900, "thorough": 1800}}],
    "functions": [
        "dicom_encoding::encode::{explicit_le,explicit_be,implicit_le}::*::encode_element_header / encode_item_header / encode_item_delimiter / encode_sequence_delimiter",
        "dicom_encoding::decode::{explicit_le,explicit_be,implicit_le}::*::decode_header / decode_item_header",
        "dicom_core::header::VR::{from_binary,to_bytes,from_str,to_string}", "dicom_core::header::SequenceItemHeader::new",
    ],
    "bounds": "none on tag (group != FFFE for element headers), VR (all 34), length (all 2^32 incl. undefined), all 65 536 VR codes; "
              "decoders additionally on 12 arbitrary bytes",
    "outside": "nothing within the statement; the adaptive decoder's locked states are covered under C08",
    "assumptions": ["oracle: PS3.5 7.1 layout function and VR tables written in the harness crate (kani/common/common.rs, kani/enc/src/c03.rs)"],
}

SPECS["C07"] = {
    "parts": [{"engine": "kani", "group": "parser", "select": r"^c07_", "mem_gb": 8,
               "timeout": {"quick": 900, "thorough": 1800}}],
    "functions": ["dicom_parser::stateful::decode::StatefulDecoder::{read_value, read_value_preserved, read_value_bytes} and the per-VR readers they dispatch to"],
    "bounds": "one harness per (VR class, concrete odd declared length in 1..9); source bytes symbolic (8 or 12 bytes)",
    "outside": "declared lengths above 9",
    "assumptions": ["StandardDataDictionary::indexed_tag stubbed to 'unknown attribute' (only used for the pixel-padding VR fix-up)", "tracing macros stubbed to disabled"],
}

SPECS["C15"] = {
    "parts": [{"engine": "m", "module": "c15"}],
    "bounds": "none: all 2^32 tags (one symbolic 32-bit tag), every table entry for the keyword side",
    "outside": "the SOP class / UID dictionary (same construction, not encoded)",
    "assumptions": ["contracts: HashMap::{insert,get} / HashSet::{insert,contains} as finite maps, once_cell::Lazy = value of its initialiser, "
                    "Option::{or_else,cloned}, RangeInclusive::contains", "nightly MIR (debug-assertions off, overflow-checks on) stands for the shipped code; "
                    "tied back by native cross-checks of one solver-chosen tag per path"],
}

SPECS["C17"] = {
    "parts": [{"engine": "m", "module": "c17"}],
    "bounds": "5 components, presence symbolic (all 32 combinations), component text of length 1-3 with symbolic printable ASCII bytes "
              "satisfying the precondition (no ^ = \\, no leading/trailing white space); quick: 4 length tuples, thorough: all 243",
    "outside": "components longer than 3 bytes; non-ASCII text; ideographic/phonetic groups",
    "assumptions": ["contracts: String::{new,push,push_str}, slice::iter, Iterator::{rev,peekable,next}, Peekable::{peek,next_if,next_back}, "
                    "Option::{is_some,is_none,and_then}, str::{trim,split::<char>,is_empty}, Split::next, Cow deref/into"],
}

SPECS["C34"] = {
    "parts": [{"engine": "m", "module": "c34"}, {"engine": "m", "module": "c34file"}],
    "functions": ["dicom_parser::dataset::write::DataSetWriter::{write, write_impl} + StatefulEncoder + codecs over a failing writer", "dicom_ul::pdu::writer::write_pdu (A-ASSOCIATE-RQ arm, write_chunk_u16/u32) over a failing writer",
                  "dicom_ul::association::read_pdu_from_wire + read_pdu over a failing transport", "dicom_object::FileDicomObject::write_dataset_impl over a buffered-sink contract"],
    "bounds": "failing call index k: any (8-bit symbolic; the streams make 10-25 calls) or none; failure kind for the data set writer: I/O error or zero-length write (Ok(0) from write, WriteZero from write_all); data set: one token stream of 13 tokens x {default, NoChange} x {ele} (thorough: ele, ile, ebe); PDU writer: A-ASSOCIATE-RQ with 1 context and 4 user items; "
              "receiver: stream p1+rq in up to 3 reads of solver-chosen sizes with the failure at any read; file level: 3 codec kinds x every Ok/Err outcome of with_ts, write_sequence and flush",
    "outside": "whole files and the file meta group, the inside of the deflate data set adapter (file level: DataSetWriter::{with_ts, write_sequence, flush} are Ok/Err contracts over one abstract buffered sink), PDataWriter::finish on drop, zero-length writes in the PDU writer, partial writes, failures of flush(), asynchronous senders / receivers, other PDUs",
    "assumptions": ["the writer is a contract: every write_all / byteorder write is one call that either appends all its bytes or fails with an I/O error (a real io::Write may also write partially; write_all hides that)",
                    "the native replay uses a Write / Read implementation failing at the same call index; the call counts of the encoding and of the real code coincided on every replayed instance"],
}

SPECS["C36"] = {
    "parts": [{"engine": "m", "module": "c36"}],
    "bounds": "title 1-3 (thorough 1-4) symbolic non-NUL ASCII bytes without '@' (the statement's precondition), address 1-3 (1-4) symbolic "
              "non-NUL ASCII bytes that MAY contain '@'; FullAeAddr, AeAddr with and without title; T = String",
    "outside": "T = SocketAddr (std's own print/parse composed with the same generic code); longer strings; non-ASCII",
    "assumptions": ["contracts: str::{split_once::<char>,replace::<char>,contains::<char>,parse::<String>,to_string}, Option::{filter,map}, "
                    "Formatter::write_str, <String as Display>::fmt, Try/FromResidual/ResultExt::context"],
}

SPECS["C11"] = {
    "parts": [{"engine": "m", "module": "c11"}, {"engine": "m", "module": "c11f"}],
    "bounds": "to_multi_int::<T>: source variants U8/U16/I16/U32/I32/U64/I64 with 0, 1 and 2 symbolic full-width items x target types "
              "u8..i64 (quick: 14 seed-rotated (source,target) pairs, thorough: all 49); to_float32 / to_float64 on the same 7 integer source variants with 0..2 symbolic full-width items",
    "outside": "more than 2 items; textual sources (Str/Strs: std's integer and float parsers); float sources and the multi-valued float conversions; extend_*/truncate (not yet encoded)",
    "assumptions": ["contracts: SmallVec::{is_empty,deref}, slice::iter, Iterator::{map,collect::<Result<Vec<T>,E>>}, <T as NumCast>::from = range "
                    "check + truncation (num-traits doc), <f32|f64 as NumCast>::from::<int> = Some(value as float) (num-traits doc), Option::ok_or_else, opaque error constructors",
                    "oracle for the float conversions: z3's correctly rounded (RNE) integer -> IEEE-754 conversion, which is what Rust's `as` specifies"],
}

SPECS["C22"] = {
    "parts": [{"engine": "m", "module": "c22"}],
    "bounds": "formula equalities: ALL f64 slope/intercept/x (rescale) and all finite x/center/width/y_max (window functions), no bound; "
              "sample interpretation: bits stored 1-16, both signednesses, all indices; range/monotonicity: sampled parameter sets (5 fixed + "
              "seeded random) x ALL stored values of the given bits stored, output types u8/u16",
    "outside": "exp() is an uninterpreted function (sigmoid checked modulo exp); explicit VOI LUT tables (VoiLutTransform); bits stored 17-32; "
               "monotonicity for all-symbolic parameters (z3 unknown after 120 s, DESIGN §3 C22); the table construction loop itself "
               "((0..size).map(f).collect() is taken as entry i = f(i))",
    "assumptions": ["IEEE-754 round-to-nearest-even for +,-,*,/ as emitted by rustc; f64::max per std docs (NaN-ignoring); NumCast f64->int = range check + truncation",
                    "contracts: usize::next_power_of_two, <T as NumCast>::from::<f64>, OptionExt::context, Into<u32>, Vec index"],
}

SPECS["C24"] = {
    "parts": [{"engine": "m", "module": "c24"}],
    "bounds": "one element per VR class: AT (1-2 symbolic tags), US/SS/UL/SL (2 full-width symbolic items), LO and PN (one 3-byte symbolic printable ASCII string), "
              "OB/UN (3 symbolic bytes), OB with 4100 symbolic bytes (base64 must cover the whole value in one piece), and the empty value for US/LO/AT/OB/PN",
    "outside": "object level (key format and ascending order come from DicomJson<Tag> + BTreeMap iteration; the key serializer is encoded, the map iteration is not), "
               "sequences, FL/FD (non-finite handling), 64-bit VRs, the JSON text layer of serde_json, the base64 alphabet (third-party crate; only WHAT is encoded is checked)",
    "assumptions": ["serde Serializer/SerializeMap/SerializeSeq/SerializeStruct calls are contracts that record events", "core::fmt template decoding per library/core/src/fmt/mod.rs",
                    "Display of Tag is (GGGG,EEEE) upper-case (Kani harness of C14)", "each case cross-checked against the real serde_json output on a solver-chosen input"],
}

SPECS["C08"] = {
    "parts": [{"engine": "kani", "group": "enc", "select": r"^c08_", "mem_gb": 8, "timeout": {"quick": 1200, "thorough": 2400}}],
    "functions": ["dicom_encoding::decode::adaptive_le::AdaptiveVRLittleEndianDecoder::<D>::decode_header (all three states), vr_compatible_with_virtual, resolve_vr",
                  "compared with ExplicitVRLittleEndianDecoder::decode_header / ImplicitVRLittleEndianDecoder::<D>::decode_header"],
    "bounds": "the deciding (first non-delimiter) header: 24/16 arbitrary bytes with a solver-chosen dictionary answer (absent / Exact(any of 34 VRs) / Xs / Ox / Px / Lt); a leading item delimiter followed by the deciding header "
              "chosen by the solver (absent / Exact(any of 34 VRs) / Xs / Ox / Px / Lt); also a leading item delimiter before the deciding element",
    "outside": "headers AFTER the deciding one (locked states: two decodes through the state machine exceed 30 GB / 23 min in CBMC); DataSetReader::new_with_ts_cs_options(flexible_decoding) wiring (it hard-wires the standard dictionary); value reading between headers (the decoders do not look at values)",
    "assumptions": ["instantiation D = harness stub dictionary", "ambiguity condition as in the statement: length bytes spelling a VR that the dictionary does not contradict are excluded on the implicit side"],
}

SPECS["C14"] = {
    "parts": [{"engine": "kani", "group": "enc", "select": r"^c14_", "mem_gb": 10, "timeout": {"quick": 1500, "thorough": 2400}}, {"engine": "m", "module": "c14kw"}],
    "functions": ["dicom_core::header::<Tag as FromStr>::from_str, parse_tag_part", "<Tag as Display>::fmt (real core::fmt into a fixed sink)", "dicom_core::dictionary::DataDictionary::parse_tag (provided method, Engine M)"],
    "bounds": "parsing: EVERY valid UTF-8 string of byte length 0, 7, 8, 9, 10, 11, 12 (all bytes symbolic); printing: all 2^32 tags, canonical form compared byte by byte, "
              "print->parse identity for the three forms incl. lower case; keyword clause (Engine M): parse_tag on every text of 4, 5, 8, 9 (thorough 4..11) letters / digits with the dictionary "
              "knowing it or not (solver choice) and any tag behind it",
    "outside": "strings longer than 12 bytes (rejected by the length match before any indexing); the selector syntax around the keys (items, dots); which keywords the standard dictionary actually holds (C15)",
    "assumptions": ["oracle: independent recogniser of the three forms in kani/enc/src/c14.rs", "keyword clause: by_name is a contract (known / unknown, symbolic tag); str::{is_char_boundary, split_at, chars}, u16::from_str_radix over symbolic ASCII characters are contracts"],
}

SPECS["C26"] = {
    "parts": [{"engine": "kani", "group": "ul", "select": r"^c26_", "mem_gb": 8, "timeout": {"quick": 1200, "thorough": 2400}}],
    "functions": ["dicom_ul::association::pdata::PDataWriter::{new (via cfg(kani) hook), write, finish, dispatch_pdu, finish_impl}", "pdata::setup_pdata_header"],
    "bounds": "max_pdu_length in {7, 10, 12} (buffer of 13-18 bytes), two writes whose sizes are instance parameters covering every fill level (empty, partial, exactly full, overflow), "
              "then finish; payload bytes and presentation context id symbolic; working transport",
    "outside": "more than two writes before finish (each write starts from a buffer fill level that one of the instances reaches); large maximum lengths; the asynchronous writer and the reader (not yet built)",
    "assumptions": ["hook: cfg(kani) public constructor (repo commit 655337a)", "oracle: PS3.8 9.3.5 reading of the emitted bytes in kani/ul/src/c26.rs"],
}

SPECS["C25"] = {
    "parts": [{"engine": "kani", "group": "ul", "select": r"^c25_", "mem_gb": 12, "timeout": {"quick": 1500, "thorough": 3000}},
              {"engine": "m", "module": "c25"}, {"engine": "m", "module": "c25rq"}],
    "functions": ["dicom_ul::pdu::writer::write_pdu (+ write_chunk_u32)", "dicom_ul::pdu::reader::read_pdu"],
    "bounds": "A-RELEASE-RQ/RP, P-DATA-TF with one PDV of 2 symbolic bytes or an empty payload (context id, type, last flag symbolic), unknown PDU type; "
              "strict prefixes of concrete length per instance; item length fields: write_chunk_u16/u32 for all content lengths <= 2^20 / 2^33 (Engine M); "
              "A-ASSOCIATE-RQ (1 proposed context, 2 transfer syntaxes) and -AC (2 results) with the 7 user sub-item kinds, UID lengths 1..3 per instance, symbolic digits / bytes / flags (Engine M, write side)",
    "outside": "strict mode (read_pdu with a symbolic length field: no verdict in 1500 s), A-ABORT and A-ASSOCIATE-RJ (bytes::Bytes pointer tagging defeats CBMC's pointer model: spurious failures that do not replay), reading A-ASSOCIATE-RQ/AC back (string building in CBMC), UIDs longer than 3 characters and other item multiplicities (the shape is concrete per instance), more than one PDV",
    "assumptions": ["tracing macros stubbed to disabled", "oracle: PS3.8 9.3 framing checked on the written bytes in kani/ul/src/c25.rs"],
}

SPECS["C18"] = {
    "parts": [{"engine": "kani", "group": "enc", "select": r"^c18_", "mem_gb": 8, "timeout": {"quick": 1200, "thorough": 2400}},
              {"engine": "m", "module": "c18"}],
    "functions": ["dicom_encoding::adapters::PixelDataWriter::encode (default method)", "dicom_core::value::fragments::Fragments::new"],
    "bounds": "default encode: 1-3 frames with solver-chosen frame sizes 0-6 (a harness encode_frame emits that many bytes); Fragments::new: (data length, fragment size) "
              "instances (3,0) (4,0) (5,2) (6,4) (5,3) (1,6) (0,0) (0,2) with symbolic bytes",
    "outside": "From<Vec<Fragments>> (offset table of the helper: not encoded), Fragments::new arithmetic for data lengths outside [0, 2^16] and [2^24-8, 2^24+24] (z3 unknown), Encapsulated Pixel Data Value Total Length in transcode.rs (global registry + file object)",
    "assumptions": ["a fragment occupies 8 header bytes plus its data padded to even length when written (PS3.5 A.4)"],
}

SPECS["C21"] = {
    "parts": [{"engine": "kani", "group": "enc", "select": r"^c21_", "mem_gb": 8, "timeout": {"quick": 1200, "thorough": 2400}}],
    "functions": ["dicom_encoding::adapters::PixelDataObject::frame_pixel_data (default method: native branch incl. 1-bit, fragment/offset-table branch)",
                  "adapters::determine_bytes_per_native_frame"],
    "bounds": "native: bits allocated 8/16 with 1 or 3 samples, rows and columns symbolic 1-4, frames 0-3 of a 40-48 byte pixel data element; 1-bit: rows and columns symbolic 1-17, frames 0-6, "
              "40 bytes; encapsulated: 3 fragments of 2/4/2 bytes over 2 frames with both possible splits; all pixel bytes symbolic",
    "outside": "PixelDecoder::decode_pixel_data / decode_pixel_data_frame (1-bit expansion to 0/255 is inline in a 130-line method of the file object implementation that needs the global registry: no callable unit)",
    "assumptions": ["harness implementation of the PixelDataObject trait (the default method under test is the repository's)"],
}

SPECS["C16"] = {
    "parts": [{"engine": "m", "module": "c16"}],
    "bounds": "capability predicates: every codec shape (symbolic discriminants); registry contents: all entries under the default feature set and under native+deflate "
              "(the tools' codec features); padded lookup: 0-2 symbolic trailing bytes from {space, NUL} for 14 seed-rotated entries (thorough: all)",
    "outside": "feature sets other than default and native+deflate (jpeg2000, jpeg-ls, jpeg-xl bindings need system libraries); registration order effects of the inventory-based registry",
    "assumptions": ["registry contents are read through the public API of the real registry (native oracle) and the lookup is re-executed from the MIR of TransferSyntaxRegistryImpl::get over those keys; "
                    "contracts: HashMap::get as a finite map, char::is_whitespace on the Latin-1 range"],
}

SPECS["C05"] = {
    "parts": [
        {"engine": "kani", "group": "enc", "select": r"^c05_|^c03_decode_arbitrary|^c14_parse_len(8|9|11)$", "mem_gb": 10, "timeout": {"quick": 1800, "thorough": 3000},
         "thorough_only": r"len(14|17|19)$"},
        {"engine": "kani", "group": "ul", "select": r"^c25_(pdata_1pdv_p8|unknown_p8|release_rq_p5)$", "mem_gb": 12, "timeout": {"quick": 1800, "thorough": 3000}},
        {"engine": "m", "module": "c05json"},
    ],
    "functions": ["dicom_core::value::deserialize::{parse_date, parse_date_partial, parse_time, parse_time_partial, parse_datetime_partial}", 
                  "<Tag as FromStr>::from_str", "explicit LE/BE header decoders on arbitrary bytes", "dicom_ul::pdu::read_pdu on every strict prefix of small PDUs",
                  "dicom_json::de::<impl Visitor for DataElementVisitor<D>>::visit_map (Engine M)"],
    "bounds": "every byte string of the listed lengths (dates 0-10, times 1-14, date-times 4-19 bytes; tags 8, 9, 11 bytes; headers 12 bytes; PDU prefixes of 5-8 bytes); "
              "no panic, overflow or out-of-bounds access (Kani's checks), every loop within its unwind bound; DICOM JSON: one data element object with 0..3 members chosen by the solver among "
              "vr / Value / InlineBinary / BulkDataURI / other, in any order, 9 VR texts, serde_json::from_value and base64 decoding succeeding or failing: no call of core::panicking::* reachable",
    "outside": "range parsers (> 10 GB / 15 min for 9 bytes), file opening / byte-source readers / collector (BufReader + global registry + dictionary), DICOM JSON beyond the member structure of one element (serde_json's own parsing, number/text conversion of Value items, nested sequences), JPEG / deflate / RLE decoders (third-party or measured infeasible: RLE decode_frame 900 s without verdict), "
               "data set readers on arbitrary streams and value readers for text VRs (measured > 8 GB), dump; attribute selectors",
    "assumptions": ["Kani's panic / arithmetic overflow / bounds checks as the oracle", "JSON: serde MapAccess, serde_json::from_value (Ok(empty list) | Err) and Engine::decode (Ok | Err) are contracts; error values are opaque"],
}

SPECS["C13"] = {
    "parts": [{"engine": "m", "module": "c13"}],
    "functions": ["dicom_object::mem::InMemDicomObject::{apply_leaf, apply_change_value_impl, put_element, remove_element, get, invalidate_if_charset_changed}", "dicom_core::header::DataElement::{new, empty, into_parts}",
                  "dicom_object::mem::InMemDicomObject::apply (selector navigation), dicom_core::header::DataElement::items_mut, dicom_core::ops::AttributeAction::is_constructive"],
    "bounds": "nested: selector (tag)[item].(leaf tag) with item index 0..2 on an object holding one sequence of 0-1 empty items and one primitive element, every tag symbolic, actions Set / Replace / Remove; flat: objects of 1-2 elements (thorough 0-2) whose tags are symbolic and pairwise distinct, with one symbolic U16 value each and VR US / LO; the addressed tag is symbolic (may hit any stored element or none); "
              "new value: one symbolic U16, or a 2-character symbolic text; new VR one of OW / UN / SS; Set / Replace also with an EMPTY value on an object whose first element is a data set sequence with one item; quick: 9 actions, thorough: 11",
    "outside": "selectors with more than one nested step, items that already hold attributes, PushStr / PushI32 / ... / Truncate, objects with sequences or more than 2 elements, FileMetaTable's operations, writing the objects in every transfer syntax and reading them back",
    "assumptions": ["BTreeMap::{get, get_mut, insert, remove, contains_key} as a finite map with symbolic keys (a lookup forks on key equality; get_mut returns an alias of the stored slot)",
                    "the dictionary lookup for an absent attribute answers any of US / LO / SQ / OB or nothing (UN); the native replay uses the real dictionary and does not compare the VR of a created attribute",
                    "oracle: the semantics documented on dicom_core::ops::AttributeAction written out in enginem/cases/c13.py"],
}

SPECS["C27"] = {
    "parts": [{"engine": "m", "module": "c27"}],
    "functions": ["dicom_ul::association::read_pdu_from_wire", "dicom_ul::pdu::reader::read_pdu (header handling; A-RELEASE-RQ/RP, A-ABORT and P-DATA-TF arms)"],
    "bounds": "streams rq+rp, p1+rq, p2+p0+rp (thorough: also rq+p3, ab+rq+rp, p1+p1) where pN is a P-DATA-TF with one PDV of N symbolic payload bytes, symbolic context id and control header; "
              "the transport delivers the stream in 1..3 reads (thorough 1..4) with every combination of read sizes; maximum PDU length 16378, strict mode",
    "outside": "the asynchronous receiver, A-ASSOCIATE PDUs and other long PDUs in the stream, more reads than the bound, reads of zero bytes before the end of the stream (a closed connection), errors of the transport (C34)",
    "assumptions": ["contracts over byte lists: BufReader::{new, fill_buf, consume} (fill_buf returns the next read of the transport, consume discards it), BytesMut::{extend_from_slice, advance, deref}, Cursor::{new, position, set_position}, "
                    "bytes::Buf::{remaining, has_remaining, copy_to_bytes, get_u8/u16/u32, advance} (reading past the end is a panic, as in the bytes crate)", "snafu context/fail: error values are opaque"],
}

SPECS["C28"] = {
    "parts": [{"engine": "m", "module": "c28"}, {"engine": "m", "module": "c28rq"}],
    "functions": ["dicom_ul::association::server::ServerAssociationOptions::process_a_association_rq::{closure#1} (per-context negotiation)", "ServerAssociationOptions::choose_ts (+ closure)",
                  "dicom_ul::association::server::choose_supported (+ closure)", "dicom_ul::association::uid::trim_uid (+ closure)",
                  "dicom_ul::association::server::ServerAssociationOptions::process_a_association_rq (whole function, + closures)"],
    "bounds": "whole request: symbolic protocol version, right / wrong application context name, 0..2 user items (Max Length with any 32-bit value, version name, role selection), 0..2 proposed contexts with symbolic identifiers, "
              "access control granting or refusing with any of its three specific reasons; per-context universe: abstract syntaxes {1.2.3, 1.2.4} proposed as 4 texts (plain and NUL-padded), transfer syntaxes {Implicit VR LE, Explicit VR LE, an unknown UID} proposed as 4 texts (one NUL-padded), 0..2 proposed transfer syntaxes in any order "
              "with repetition; configuration: any subset of the 2 abstract syntaxes, any subset of the 3 transfer syntaxes, promiscuous on/off; identifier symbolic (about 5400 paths)",
    "outside": "more than 2 contexts or 2 user items per request, the negotiation callbacks (contracts answering None), user identity items, the acceptor's own maximum PDU length announcement, "
               "space-padded UIDs (trim_uid only trims texts ending in NUL: stated by the property as NUL-padded UIDs)",
    "assumptions": ["contract: is_supported(uid) <=> the NUL-trimmed uid is Implicit or Explicit VR Little Endian (registry behaviour is decided under C16)", "slice::contains / str equality over concrete texts", "contracts: AccessControl::check_access answers Ok or Err(reason) (both explored), Negotiation::{negotiate_roles, extended_negotiation} answer None, snafu builders are opaque",
                    "oracle: the rules of the property statement written out in enginem/cases/c28.py; counterexamples are replayed against a real acceptor over a loopback socket (raw A-ASSOCIATE-RQ in, A-ASSOCIATE-AC out)"],
}

SPECS["C29"] = {
    "parts": [{"engine": "m", "module": "c29"}, {"engine": "m", "module": "c29send"}],
    "bounds": "any number of proposed presentation contexts up to 100 000 that create_a_associate_req lets through (its guards are taken from its own MIR), any pair of positions; "
              "send-size limit: encode_pdu + write_pdu on P-DATA-TF PDUs of 1..4 PDVs with payloads of 0..16000 bytes (concrete per instance, sizes a real association admits) and a symbolic peer maximum (any u32)",
    "outside": "agreement of requestor and acceptor on the negotiated contexts and maximum PDU lengths, the PDU kinds other than P-DATA-TF in encode_pdu, the asynchronous send path's own buffering, the loopback exchange itself (sockets, threads: used only to replay counterexamples)",
    "assumptions": ["callees of create_a_associate_req other than the context vector's len/is_empty are havocked (unconstrained): an over-approximation, so 'holds' is sound and every counterexample "
                    "is replayed against a real requestor over a loopback socket before it is reported"],
}

SPECS["C04"] = {
    "parts": [{"engine": "m", "module": "c04"}],
    "functions": ["dicom_parser::dataset::write::DataSetWriter::{write, write_impl} with both ExplicitLengthSqItemStrategy values",
                  "dicom_parser::stateful::encode::StatefulEncoder::{encode_element_header, encode_item_header, encode_item_delimiter, encode_sequence_delimiter, "
                  "encode_primitive_element, encode_text_element, encode_texts_element, convert_text_untrailed, write_bytes, encode_offset_table}, even_len",
                  "dicom_core::PrimitiveValue::calculate_byte_len", "dicom_encoding::encode::{explicit_le, implicit_le, explicit_be} header / item / delimiter / offset table encoders",
                  "dicom_encoding::encode::BasicEncode::encode_primitive (numeric, U8, Tags, Str, Strs arms) and basic::{Little,Big}EndianBasicEncoder"],
    "bounds": "one element through encode_primitive_element per (codec, VR, value variant, item count / text length) instance: U8 x0..3, U16 x1..2, I16/U32/I32/U64/I64 x1..2, Str of 0..3 characters "
              "in 8 VRs, Strs of 2..3 short strings, Tags x1, Empty, five concrete non-ASCII Str/Strs values (ISO 8859-1 output shorter than the UTF-8 text); symbolic tag (not FFFE,xxxx, not (0008,0005)), symbolic caller-supplied header length, symbolic content; "
              "token streams of 5 shapes (sequence > item > element; nested sequences; empty item + item + trailing element; encapsulated pixel data then nested sequences; "
              "element + pixel data with offset table and an odd fragment) x {default, NoChange} strategy x {defined, undefined} recorded lengths, symbolic values and (default strategy) symbolic recorded lengths; "
              "all three uncompressed codecs; Date / Time / DateTime elements of 1..2 values built by running the MIR of every public constructor (from_y .. from_date_and_time_with_time_zone, and the crate-private from_hmsf) "
              "on symbolic arguments, every offset chrono admits (|secs| < 86400)",
    "outside": "DS/IS written from binary values, F32/F64, character sets other than the default repertoire "
               "(the text codec is a contract: the instance's characters are their own encoding), the (0008,0005) codec switch, longer values and other stream shapes, whole files with meta group, deflated syntaxes",
    "assumptions": ["text codec contract: default repertoire is its own encoding", "io::Write on Vec<u8> appends and never fails", "byteorder / byteordered write_uN contracts: N/8 bytes in the stated order", "core::fmt: template interpreter and integer rendering in enginem/fmtlib.py (digits are fresh variables tied to the value); chrono::FixedOffset::{east_opt, fmt} run from chrono's MIR",
                    "oracle: PS3.5 7.1/7.5 walker written in enginem/cases/c04.py, also run over the real bytes of every instance (native oracle c04_elem / c04_tokens)"],
}

SPECS["C09"] = {
    "parts": [{"engine": "m", "module": "c09"}, {"engine": "m", "module": "c09ops"}],
    "functions": ["dicom_object::meta::FileMetaTable::{update_information_group_length, calculate_information_group_length, into_element_iter}", "dicom_object::meta::dicom_len",
                  "dicom_parser::stateful::encode::StatefulEncoder::encode_primitive_element and the Explicit VR LE header / primitive encoders (as in C04)"],
    "bounds": "quick: 6 presence masks of the optional attributes (none, all, each end, two mixed) with a length pattern chosen by VERIF_SEED; thorough: all 64 masks x 4 length patterns; string lengths 0..5 (odd and even), "
              "private information 0..3 bytes; characters symbolic (the last character of every third string may be a pad character, NUL or space); operations: one operation per instance, 3 attributes (thorough 5: required and optional strings) x 9 actions (SetStr, SetStrIfMissing, ReplaceStr, Set, SetIfMissing, Remove, Empty, SetVr, Truncate) x optional attributes all absent / all present, new text of 4 symbolic characters",
    "outside": "reading the group back (FileMetaTable::read_from), sequences of more than one operation (each operation starts from a table with a correct length, which is what the previous one is shown to leave), operations on the binary and version attributes, FileMetaTableBuilder::build and its defaults, files with and without preamble; longer strings (the arithmetic is per field: "
               "dicom_len rounds to even, the encoder pads)",
    "assumptions": ["the elements go straight from into_element_iter to encode_primitive_element (DataSetWriter::write_sequence / IntoTokens between them are covered by C04's token streams)",
                    "text codec contract: default repertoire is its own encoding", "vec!/smallvec! lowering (Box::new_uninit, box_assume_init_into_vec_unsafe, SmallVec::from_vec) modelled as list construction"],
}

SPECS["C12"] = {
    "parts": [{"engine": "m", "module": "c12"}, {"engine": "m", "module": "c12rt"}],
    "bounds": "every DicomTime value its constructors admit: all four precisions, hour 0-23, minute 0-59, second 0-60 (leap second), fraction of 1-6 digits with any value (range clause); "
              "round trip and reported length: every DicomDate / DicomTime / DicomDateTime value that the constructors (from_y .. from_date_and_time_with_time_zone, and the crate-private from_hmsf the parsers use) "
              "return Ok for on symbolic arguments, one instance per constructor combination; offsets -12:00 .. +14:00 in whole minutes (the offsets a DICOM DT can carry)",
    "outside": "ranges of dates and date-times, the DICOM range text A-B, multi-valued text, offsets outside -12:00..+14:00 or with seconds (the constructors accept them, DT text cannot carry them); "
               "the parsers' behaviour on arbitrary text is covered for panic-freedom only (C05)",
    "assumptions": ["contract: chrono::NaiveTime::from_hms_micro_opt(h, m, s, us) is Some iff h < 24, m < 60, s < 60, us < 2 000 000 (chrono documentation: microseconds above 999 999 encode a leap second)",
                    "contracts: u32::pow(10, e) as a table for e <= 9, Option::unwrap_or, OptionExt::context", "core::fmt: template interpreter and integer rendering in enginem/fmtlib.py; "
                    "chrono::FixedOffset::{east_opt, west_opt, fmt} run from chrono's MIR", "snafu context/fail: error values are opaque"],
}

SPECS["C31"] = {
    "parts": [{"engine": "m", "module": "c31"}],
    "bounds": "2-3 (thorough 1-4) elements with symbolic tags in group 0000 or 0008 that may coincide, value lengths symbolic up to 64 KiB",
    "outside": "that PrimitiveValue::calculate_byte_len equals the number of bytes the encoder writes for each VR (value encoding is not part of this check); more than 4 elements; the real BTreeMap (a finite map with symbolic keys stands for it)",
    "assumptions": ["elements are abstract: (tag, byte length reported by the value's HasLength::length, declared length reported by the element's own HasLength::length - unconstrained); contracts: BTreeMap collect/insert as a finite map keyed by tag, DataElement::{tag,value,new}, Length::is_defined"],
}
