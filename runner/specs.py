"""Per-property check specifications: which harnesses / Engine-M modules decide a property and in which tier."""

SPECS = {}

SPECS["C03"] = {
    "parts": [{"engine": "kani", "group": "enc", "select": r"^c03_", "mem_gb": 6,
               "timeout": {"quick": 900, "thorough": 1800}}],
    "functions": [
        "dicom_encoding::encode::{explicit_le,explicit_be,implicit_le}::*::encode_element_header / encode_item_header / encode_item_delimiter / encode_sequence_delimiter",
        "dicom_encoding::decode::{explicit_le,explicit_be,implicit_le}::*::decode_header / decode_item_header",
        "dicom_core::header::VR::{from_binary,to_bytes,from_str,to_string}", "dicom_core::header::SequenceItemHeader::new",
    ],
    "bounds": "none on tag (group != FFFE for element headers), VR (all 34), length (all 2^32 incl. undefined), all 65 536 VR codes; "
              "decoders additionally on 12 arbitrary bytes",
    "outside": "nothing within the statement; the adaptive decoder's locked states are covered under C08",
    "assumptions": ["oracle: PS3.5 7.1 layout function and VR tables written in the harness crate (kani/common/common.rs, kani/enc/src/c03.rs)"],
}

SPECS["C07"] = {
    "parts": [{"engine": "kani", "group": "parser", "select": r"^c07_", "mem_gb": 8,
               "timeout": {"quick": 900, "thorough": 1800}}],
    "functions": ["dicom_parser::stateful::decode::StatefulDecoder::{read_value, read_value_preserved, read_value_bytes} and the per-VR readers they dispatch to"],
    "bounds": "one harness per (VR class, concrete odd declared length in 1..9); source bytes symbolic (8 or 12 bytes)",
    "outside": "declared lengths above 9",
    "assumptions": ["StandardDataDictionary::indexed_tag stubbed to 'unknown attribute' (only used for the pixel-padding VR fix-up)", "tracing macros stubbed to disabled"],
}
