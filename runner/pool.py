"""Cross-process resource pool (memory tokens) so that concurrently running checks do not
oversubscribe the 62 GB / 16 cores of the sandbox.  A flock-protected JSON file holds the
current leases; stale leases (dead pids) are dropped."""
import fcntl, json, os, time

TOTAL_GB = int(os.environ.get("VERIF_TOTAL_GB", "54"))
TOTAL_JOBS = int(os.environ.get("VERIF_TOTAL_JOBS", "15"))


class Pool:
    def __init__(self, path):
        self.path = path
        os.makedirs(os.path.dirname(path), exist_ok=True)
        if not os.path.exists(path):
            with open(path, "a"):
                pass

    def _with(self, fn):
        with open(self.path, "r+") as f:
            fcntl.flock(f, fcntl.LOCK_EX)
            try:
                txt = f.read()
                try:
                    leases = json.loads(txt) if txt.strip() else []
                except Exception:
                    leases = []
                alive = []
                for l in leases:
                    try:
                        os.kill(l["pid"], 0)
                        alive.append(l)
                    except OSError:
                        pass
                res, alive = fn(alive)
                f.seek(0)
                f.truncate()
                f.write(json.dumps(alive))
                return res
            finally:
                fcntl.flock(f, fcntl.LOCK_UN)

    def try_acquire(self, gb, key):
        def fn(leases):
            used = sum(l["gb"] for l in leases)
            if leases and (used + gb > TOTAL_GB or len(leases) + 1 > TOTAL_JOBS):
                return False, leases
            leases.append({"pid": os.getpid(), "gb": gb, "key": key, "t": time.time()})
            return True, leases

        return self._with(fn)

    def release(self, key):
        def fn(leases):
            out = []
            done = False
            for l in leases:
                if not done and l["pid"] == os.getpid() and l["key"] == key:
                    done = True
                    continue
                out.append(l)
            return None, out

        return self._with(fn)
