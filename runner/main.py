#!/usr/bin/env python3
"""./check <id> --tier quick|thorough [--replay path] — single entry point (DESIGN §1.4)."""
import argparse, concurrent.futures, json, os, re, shutil, subprocess, sys, threading, time

sys.path.insert(0, os.path.dirname(os.path.abspath(__file__)))
import kani as K
from pool import Pool
from specs import SPECS

VERIF = K.VERIF
EVID = os.environ.get("VERIF_EVIDENCE", os.path.join(VERIF, "evidence"))
REPLAYS = os.path.join(os.environ["VERIF_BUILD"], "replays") if os.environ.get("VERIF_BUILD") else os.path.join(VERIF, "replays")
KNOWN = os.path.join(VERIF, "known_findings.txt")
MAX_REPLAYS = int(os.environ.get("VERIF_MAX_REPLAYS", "2"))


def log(*a):
    print(*a, file=sys.stderr, flush=True)


def load_known():
    """lines: `finding: property=<id> witness=<harness-or-case> <what fails>` / `fixed: property=<id> <commit> <what>`"""
    out = {}
    if not os.path.exists(KNOWN):
        return out
    for line in open(KNOWN):
        line = line.strip()
        if not line.startswith("finding:"):
            continue
        m = re.match(r"finding:\s+property=(\S+)\s+witness=(\S+)\s+(.*)", line)
        if m:
            out.setdefault(m.group(1), {})[m.group(2)] = m.group(3)
    return out


# ------------------------------------------------------------------------------------------ Engine K
def kani_playback(group, hname, pid, pretty=None, srcfile=None):
    """re-run the failing harness with concrete playback, append the generated unit test(s) for the failed checks to the
    harness's module file in the build copy and execute them natively (dev profile, then release-like codegen settings).
    Returns (reproduced: bool, replay_path)."""
    root = os.path.join(K.BUILD, group)
    crate = os.path.join(root, "crate")
    env = K._env()
    os.makedirs(os.path.join(REPLAYS, pid), exist_ok=True)
    rp = os.path.join(REPLAYS, pid, hname + ".txt")
    with K.GroupLock(group):
        K.materialize(group)
        p = subprocess.run(["cargo", "kani", "-Z", "stubbing", "-Z", "concrete-playback", "--concrete-playback=print",
                            "--harness", pretty or hname] + (["--exact"] if pretty else []) +
                           ["--target-dir", os.path.join(root, "target")], cwd=crate, env=env,
                           stdout=subprocess.PIPE, stderr=subprocess.STDOUT, text=True)
        out = p.stdout
        blocks = re.findall(r"```\n(.*?)```", out, re.S)
        tests = [b for b in blocks if "kani::concrete_playback_run" in b and "Check for `cover`" not in b]
        head = "// group=%s harness=%s pretty=%s\n// replay: ./check %s --replay %s\n" % (group, hname, pretty or "", pid, rp)
        if not tests:
            open(rp, "w").write(head + "// no concrete playback test was generated for a failed check\n// " + out[-3000:].replace("\n", "\n// ") + "\n")
            return False, rp
        open(rp, "w").write(head + "\n".join(tests))
        if srcfile is None:
            # locate the module file that defines the harness
            for dirpath, _, files in os.walk(os.path.join(crate, "src")):
                for f in files:
                    txt = open(os.path.join(dirpath, f)).read()
                    if re.search(r"\b%s\b" % re.escape(hname), txt) and not f.endswith("lib.rs"):
                        srcfile = os.path.join(dirpath, f)
        else:
            srcfile = os.path.join(crate, srcfile)
        with open(srcfile, "a") as f:
            f.write("\n// ---- concrete playback tests appended by the runner ----\n" + "\n".join(tests))
        ok = False
        notes = []
        for prof in ("dev", "release-like"):
            env2 = dict(env)
            env2["CARGO_TARGET_DIR"] = os.path.join(root, "target-pb-" + prof)
            if prof != "dev":
                env2.update({"CARGO_PROFILE_DEV_OPT_LEVEL": "3", "CARGO_PROFILE_DEV_DEBUG_ASSERTIONS": "false",
                             "CARGO_PROFILE_DEV_OVERFLOW_CHECKS": "false", "CARGO_PROFILE_TEST_OPT_LEVEL": "3",
                             "CARGO_PROFILE_TEST_DEBUG_ASSERTIONS": "false", "CARGO_PROFILE_TEST_OVERFLOW_CHECKS": "false"})
            q = subprocess.run(["cargo", "kani", "playback", "-Z", "concrete-playback", "--", "kani_concrete_playback_" + hname + "_"],
                               cwd=crate, env=env2, stdout=subprocess.PIPE, stderr=subprocess.STDOUT, text=True)
            failed = re.search(r"test result: FAILED", q.stdout) is not None
            passed = re.search(r"test result: ok\. [1-9]\d* passed", q.stdout) is not None
            notes.append("profile=%s native_test_failed=%s native_test_passed=%s" % (prof, failed, passed))
            for pm in re.findall(r"panicked at [^\n]*\n[^\n]*", q.stdout)[:3]:
                notes.append(pm.replace("\n", " | "))
            if not failed and not passed:
                notes.append("playback output tail: " + q.stdout[-1500:].replace("\n", "\n// "))
            if failed:
                ok = True
        open(rp, "a").write("\n// native playback: " + "\n// ".join(notes) + "\n")
        # restore pristine sources in the build copy
        K.materialize(group)
    return ok, rp


def run_kani_part(pid, part, tier, seed, pool, known):
    group = part["group"]
    os.makedirs(os.path.join(K.BUILD, group), exist_ok=True)
    workdir = os.path.join(K.BUILD, group, "work-%s-%d" % (pid, os.getpid()))
    shutil.rmtree(workdir, ignore_errors=True)
    os.makedirs(workdir)
    res = {"group": group, "harnesses": [], "build_s": None}
    t0 = time.time()
    with K.GroupLock(group):
        hs, bs = K.build(group, os.path.join(workdir, "build.log"))
        res["build_s"] = round(bs, 1)
        sel = [h for h in hs if re.search(part["select"], h["name"])]
        if tier == "quick" and part.get("thorough_only"):
            sel = [h for h in sel if not re.search(part["thorough_only"], h["name"])]
        # seed-rotated subset for the quick tier
        rot = part.get("quick_rotate")
        if tier == "quick" and rot:
            keep = []
            pools = {}
            for h in sel:
                m = re.search(rot["regex"], h["name"])
                if m:
                    pools.setdefault(m.group(1) if m.groups() else "all", []).append(h)
                else:
                    keep.append(h)
            for k, lst in sorted(pools.items()):
                lst.sort(key=lambda h: h["name"])
                n = rot.get("n", 1)
                for i in range(n):
                    keep.append(lst[(seed + i) % len(lst)])
            names = set(h["name"] for h in keep)
            sel = [h for h in sel if h["name"] in names]
        if os.environ.get("VERIF_ONLY"):  # development aid only
            sel = [h for h in hs if re.search(os.environ["VERIF_ONLY"], h["name"])]
        if not sel:
            raise K.BuildError("no harness selected for %s in group %s" % (pid, group))
        with concurrent.futures.ThreadPoolExecutor(8) as ex:
            bins = list(ex.map(lambda h: K.prepare(h, workdir), sel))
    jobs = list(zip(sel, bins))
    per = part.get("per_harness", {})

    def one(job):
        h, b = job
        o = {}
        for rx, v in per.items():
            if re.search(rx, h["name"]):
                o.update(v)
        mem = o.get("mem_gb", part.get("mem_gb", 8))
        to = o.get("timeout", part.get("timeout", {}).get(tier, 900 if tier == "quick" else 2400))
        extra = list(part.get("cbmc_extra", [])) + list(o.get("cbmc_extra", []))
        key = "%s/%s" % (pid, h["name"])
        while not pool.try_acquire(mem, key):
            time.sleep(0.5)
        try:
            r = K.run_cbmc(h, b, workdir, to, mem, extra, seed)
        finally:
            pool.release(key)
        r["mem_cap_gb"] = mem
        r["timeout_s"] = to
        log("  [%s] %-46s %-12s %6.1fs %s" % (pid, h["name"], r["status"], r.get("wall_s", 0), r.get("reason", "")))
        return r

    with concurrent.futures.ThreadPoolExecutor(min(len(jobs), 15)) as ex:
        res["harnesses"] = list(ex.map(one, jobs))
    res["wall_s"] = round(time.time() - t0, 1)
    if not os.environ.get("VERIF_KEEP"):
        shutil.rmtree(workdir, ignore_errors=True)
    return res


# ------------------------------------------------------------------------------------------ main
def check(pid, tier, seed):
    t0 = time.time()
    spec = SPECS[pid]
    pool = Pool(os.path.join(K.BUILD, "pool.json"))
    known = load_known().get(pid, {})
    parts_out = []
    violations = []  # (what, replay)
    known_hits = []
    inconclusive = []
    unreplayed = []
    for part in spec["parts"]:
        if part["engine"] == "kani":
            try:
                r = run_kani_part(pid, part, tier, seed, pool, known)
            except K.BuildError as e:
                inconclusive.append(str(e))
                parts_out.append({"engine": "kani", "group": part["group"], "error": str(e)})
                continue
            r["engine"] = "kani"
            parts_out.append(r)
            for h in sorted(r["harnesses"], key=lambda h: (h["harness"] not in known, h["harness"])):
                if h["status"] == "inconclusive":
                    inconclusive.append("%s: %s" % (h["harness"], h["reason"]))
                elif h["status"] == "fail":
                    confirmed = len(violations) + len(known_hits)
                    if confirmed >= MAX_REPLAYS and h["harness"] not in known:
                        # enough natively confirmed counterexamples in this run; list the rest without replaying them
                        h["replayed_natively"] = None
                        unreplayed.append(h["harness"])
                        continue
                    okr, rp = kani_playback(part["group"], h["harness"], pid, h.get("pretty"))
                    h["replayed_natively"] = okr
                    h["replay"] = rp
                    what = "; ".join(sorted(set(f["description"] for f in h["failed"])))[:300]
                    if not okr:
                        inconclusive.append("%s: counterexample did not reproduce natively (%s)" % (h["harness"], rp))
                    elif h["harness"] in known:
                        known_hits.append((h["harness"], known[h["harness"]]))
                    else:
                        violations.append((h["harness"] + ": " + what, rp))
        elif part["engine"] == "m":
            import enginem_driver
            r = enginem_driver.run_part(pid, part, tier, seed, known, log)
            parts_out.append(r)
            inconclusive += r.get("inconclusive", [])
            known_hits += r.get("known_hits", [])
            violations += r.get("violations", [])
        else:
            inconclusive.append("unknown engine " + part["engine"])
    wall = round(time.time() - t0, 1)
    write_evidence(pid, tier, seed, spec, parts_out, violations, known_hits, inconclusive, wall)
    for w, what in known_hits:
        print("KNOWN-FINDING: property=%s %s [%s]" % (pid, what, w))
    for what, rp in violations:
        print("VIOLATION property=%s replay=%s" % (pid, rp))
        log("  violation: " + what)
    if unreplayed:
        log("  further failing harnesses (not replayed, %d confirmed already): %s" % (MAX_REPLAYS, ", ".join(unreplayed)))
    for i in inconclusive:
        log("INCONCLUSIVE: " + i)
    if violations:
        return 1
    if inconclusive:
        return 2
    print("OK property=%s tier=%s wall=%.0fs" % (pid, tier, wall))
    return 0


def write_evidence(pid, tier, seed, spec, parts, violations, known_hits, inconclusive, wall):
    os.makedirs(EVID, exist_ok=True)
    samples = []
    evaluations = 0
    nontrivial = 0
    solver_s = 0.0
    functions = list(spec.get("functions", []))
    stubs = set()
    obligations = 0
    discharged = 0
    for p in parts:
        if p.get("engine") == "kani":
            for h in p.get("harnesses", []):
                evaluations += h.get("props", 0)
                solver_s += (h.get("solver_s") or 0) + (h.get("symex_s") or 0)
                obligations += 1
                if h["status"] == "pass":
                    discharged += 1
                if h["status"] in ("pass", "fail"):
                    nontrivial += sum(1 for v in h["covers"].values() if v)
                for s in h.get("stubs", []):
                    stubs.add(s)
                samples.append({"engine": "kani/cbmc", "harness": h["harness"], "status": h["status"], "reason": h.get("reason", ""),
                                "unwind": h.get("unwind"), "cbmc_properties_checked": h.get("props"),
                                "cover_points": h.get("covers"), "program_steps": h.get("steps"), "sat_size": h.get("sat_size"),
                                "symex_s": h.get("symex_s"), "solver_s": h.get("solver_s"), "wall_s": h.get("wall_s"),
                                "mem_cap_gb": h.get("mem_cap_gb"), "failed_checks": h.get("failed"), "replay": h.get("replay"),
                                "replayed_natively": h.get("replayed_natively")})
        elif p.get("engine") == "m":
            evaluations += p.get("evaluations", 0)
            nontrivial += p.get("distinct_nontrivial", 0)
            obligations += p.get("obligations", 0)
            discharged += p.get("discharged", 0)
            solver_s += p.get("solver_s", 0)
            samples += p.get("samples", [])
            functions += p.get("functions", [])
    ev = {
        "property_id": pid,
        "tier": tier,
        "seed": seed,
        "level": "model_checking",
        "coverage": {
            "evaluations": evaluations,
            "distinct_nontrivial": nontrivial,
            "rule": "Engine K: one evaluation = one CBMC property (assertion, overflow/bounds/panic check, unwinding assertion) decided by "
                    "the SAT solver for ALL symbolic inputs of a harness within its unwind bound; distinct_nontrivial counts the kani::cover! "
                    "witness points the solver satisfied (each is a distinct named input class, e.g. '12-byte header', 'overflow rejected', for "
                    "which a concrete witness exists, i.e. the harness is not vacuous there). Engine M: one evaluation = one SMT "
                    "query (path feasibility or negated property) over the MIR-derived encoding; nontrivial = negated-property queries "
                    "that were decided on a path with a feasibility witness.",
            "samples": samples,
            "obligations": obligations,
            "discharged": discharged,
            "functions_encoded": functions,
            "bounds": spec.get("bounds", ""),
            "outside_the_claim": spec.get("outside", ""),
            "stubs": sorted(stubs),
            "solver_time_s": round(solver_s, 2),
            "parts": [{k: v for k, v in p.items() if k not in ("harnesses", "samples")} for p in parts],
            "known_findings_reported": [{"witness": w, "what": t} for w, t in known_hits],
            "inconclusive": inconclusive,
            "exhaustive": False,
        },
        "assumptions": spec.get("assumptions", []) + [
            "trusted: rustc + kani-compiler 0.68 lowering, CBMC 6.11 + cadical, snafu built with its inert backtrace (vendor/snafu-inert)",
            "a harness result counts only with unwinding assertions passing (CBMC 6 default) and all cover points reached",
        ],
        "wall_s": wall,
        "violations": len(violations),
    }
    tmp = os.path.join(EVID, pid + ".json.tmp")
    json.dump(ev, open(tmp, "w"), indent=1)
    os.replace(tmp, os.path.join(EVID, pid + ".json"))


def main():
    ap = argparse.ArgumentParser()
    ap.add_argument("pid")
    ap.add_argument("--tier", default=os.environ.get("VERIF_TIER", "quick"))
    ap.add_argument("--replay")
    a = ap.parse_args()
    seed = int(os.environ.get("VERIF_SEED", "0") or 0)
    if a.replay:
        print(open(a.replay).read())
        m = re.search(r"// group=(\S+) harness=(\S+)", open(a.replay).read())
        if m:
            ok, rp = kani_playback(m.group(1), m.group(2), a.pid)
            print("reproduced natively: %s" % ok)
            sys.exit(1 if ok else 0)
        sys.exit(0)
    if a.pid not in SPECS:
        log("unknown or unclaimed property " + a.pid)
        sys.exit(2)
    sys.exit(check(a.pid, a.tier, seed))


if __name__ == "__main__":
    main()
