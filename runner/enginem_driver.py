"""Engine M driver: runs a case module (enginem/cases/<name>.py) and maps its result to the runner's vocabulary."""
import importlib, json, os, sys, time, traceback

VERIF = os.path.dirname(os.path.dirname(os.path.abspath(__file__)))
sys.path.insert(0, os.path.join(VERIF, "enginem"))


class Report:
    """collects what a case did; cases call .query() for every solver-decided obligation"""

    def __init__(self, pid, log):
        self.pid, self.log = pid, log
        self.obligations = self.discharged = self.evaluations = self.nontrivial = 0
        self.samples, self.functions, self.violations, self.inconclusive, self.known_hits = [], [], [], [], []
        self.validated = 0
        self.contracts = set()

    def obligation(self, name, res, detail=None):
        """res: 'holds' | 'violated' | 'inconclusive'"""
        self.obligations += 1
        if res == "holds":
            self.discharged += 1
        s = {"engine": "M", "obligation": name, "result": res}
        if detail:
            s.update(detail)
        self.samples.append(s)
        self.log("  [%s] M %-58s %s %s" % (self.pid, name[:58], res, (detail or {}).get("note", "")))

    def replay_file(self, case, text):
        d = os.path.join(os.environ["VERIF_BUILD"], "replays", self.pid) if os.environ.get("VERIF_BUILD") else os.path.join(VERIF, "replays", self.pid)
        os.makedirs(d, exist_ok=True)
        p = os.path.join(d, case + ".txt")
        open(p, "w").write(text)
        return p


def run_part(pid, part, tier, seed, known, log):
    t0 = time.time()
    rep = Report(pid, log)
    import core
    core.STATS["queries"] = 0
    core.STATS["solver_s"] = 0.0
    try:
        mod = importlib.import_module("cases." + part["module"])
        mod.run(rep, tier, seed, known, part)
    except core.NotEncodable as e:
        rep.inconclusive.append("not encodable: %s" % e)
    except Exception as e:
        rep.inconclusive.append("engine M error: %s: %s" % (type(e).__name__, e))
        log(traceback.format_exc())
    return {"engine": "m", "module": part["module"], "obligations": rep.obligations, "discharged": rep.discharged,
            "evaluations": core.STATS["queries"] + rep.evaluations, "distinct_nontrivial": rep.nontrivial, "solver_s": round(core.STATS["solver_s"], 2),
            "samples": rep.samples, "functions": rep.functions, "violations": rep.violations, "inconclusive": rep.inconclusive,
            "known_hits": rep.known_hits, "native_cross_checks": rep.validated, "wall_s": round(time.time() - t0, 1)}
