"""Texts for MANIFEST.json (per claimed property) and reasons for unclaimed ones."""
HOOK_COMMITS = ["655337a", "c2b4681"]

TEXT = {
 "C03": {
  "engine": "K",
  "technique": "bounded model checking (Kani/CBMC, SAT) of the real header encoders/decoders against a PS3.5 layout oracle, full-width symbolic tag/VR/length",
  "level": "Solver verdict over ALL tags, all 34 VRs, all 2^32 lengths and all 65 536 VR codes for the three codecs' header/item encoders and decoders "
           "(decoders also on 12 arbitrary bytes); loop-free code, so the unwind bound cuts nothing (unwinding assertions pass). This is the whole "
           "quantifier of the statement, which tests only sample.",
  "note": "trusted: kani-compiler lowering, CBMC/cadical, the layout oracle in kani/enc/src/c03.rs, inert-backtrace snafu build; implicit-VR decoder instantiated with a stub dictionary",
 },
}

TEXT.update({
 "C07": {
  "engine": "K",
  "technique": "bounded model checking (Kani/CBMC) of StatefulDecoder::read_value* with symbolic source bytes and a concrete odd declared length per harness",
  "level": "For each binary VR reader (us, ss, ul, sl, uv, sv, fl, od, ob and the OW/OL/OV/OF/FD/UN aliases) and each of the three value-read strategies the solver "
           "decides, for ALL source bytes, that a successful read consumes exactly the declared odd length and that position() equals the bytes consumed. "
           "This is the kernel of the property; the token-level strategies (NextEven/Fail) are a table lookup on top of it.",
  "note": "text VR readers (strs, cs, da, dt, tm, ds, is) and AT are NOT covered: measured > 8 GB / 6-13 min each in CBMC (DESIGN §3 C07); "
          "dictionary lookup and tracing stubbed; inert-backtrace snafu",
 },
 "C11": {
  "engine": "M",
  "technique": "symbolic execution of the rustc MIR of PrimitiveValue::to_multi_int (+closures), to_float32 and to_float64 with z3 bit-vectors and IEEE-754 terms; native replay of every model",
  "level": "For every (source variant, target integer type) pair and 0, 1, 2 full-width symbolic items the solver shows on every feasible path: Ok(list) has one exact "
           "value per item in order, Err only if some item is not representable, an empty value gives an empty list. Kani ran out of memory (23 GB) on the same function. "
           "to_float32 / to_float64 of an integer value: Ok(first item converted with round-to-nearest-even, bit for bit), Err for an empty value.",
  "note": "bounded to 2 items; textual and float sources, multi-valued float conversions, extend/truncate not encoded; NumCast modelled by its documented contract; contract table in evidence",
 },
 "C13": {
  "engine": "M",
  "technique": "symbolic execution of the rustc MIR of InMemDicomObject::apply_leaf and the functions it calls over a finite map with symbolic tags; z3 decides every path against a reference model of the documented semantics; replay on a real object",
  "level": "For objects of 1-2 (thorough 0-2) elements with symbolic, possibly coinciding tags, a symbolic addressed tag and symbolic new value / text / VR: after Remove, Empty, SetVr, Set, SetStr, SetIfMissing, Replace "
           "(thorough also SetStrIfMissing, ReplaceStr) the object holds exactly the attributes the documented semantics give - the addressed one changed (or created only where the action says so, with the dictionary's VR), all others untouched. "
           "One nested step: whether the operation succeeds, whether a missing sequence / the next item is created (constructive actions only) and that a failing non-constructive action leaves the object unchanged follow the documented rules; an item index past the next item is an error that leaves the number of items as it was (constructive actions included).",
  "note": "leaf actions and one nested selector step: deeper selectors, push / truncate actions, the file meta table's ApplyOp and writing the resulting objects are not encoded; BTreeMap is a finite map with symbolic keys, the dictionary a contract answering any VR",
 },
 "C15": {
  "engine": "M",
  "technique": "symbolic execution of the MIR of StandardDataDictionary::indexed_tag over the registry built by running the MIR of index() on the parsed table; z3 decides equality with the published precedence for one symbolic 32-bit tag",
  "level": "Exhaustive over all 2^32 tags by solver (not by enumeration): indexed_tag(tag) equals the statement's precedence list evaluated on the table parsed from tags.rs, on all 8 paths; "
           "keyword lookup and constants checked for every table entry.",
  "note": "HashMap/HashSet/Lazy are contracts (finite maps / initialiser value); SOP class dictionary not encoded; one witness tag per path cross-checked against the real by_tag",
 },
 "C17": {
  "engine": "M",
  "technique": "symbolic execution of the MIR of PersonName::to_dicom_string and PersonName::from_text (+6 closures), presence bits and component bytes symbolic, z3",
  "level": "All 32 presence combinations are one symbolic query family (forked into up to 32 feasible paths); on each the solver shows print->parse returns the same components for ALL component "
           "bytes satisfying the precondition, for component lengths 1-3.",
  "note": "17 string/iterator contracts (listed in evidence) are trusted; every run cross-checks printed text and parse result against the real functions on solver-chosen inputs",
 },
 "C34": {
  "engine": "M",
  "technique": "symbolic execution of the rustc MIR of the data set writer, the PDU writer and the PDU receiver over a sink / transport contract whose k-th call fails, k chosen by the solver, and of FileDicomObject::write_dataset_impl over a buffered-sink contract (with_ts / write_sequence / flush answer Ok or Err as the solver chooses); replay over real failing writers / readers",
  "level": "For a token stream through DataSetWriter::write (sequence, elements, encapsulated pixel data with an odd fragment; both strategies; quick: Explicit VR LE, thorough: 3 codecs), for write_pdu on an A-ASSOCIATE-RQ with user "
           "sub-items and for read_pdu_from_wire over up to 3 reads: whichever call of the underlying writer / transport fails, the operation that made the call returns Err (never Ok), and no panic call is reachable. File level: for each codec kind of the transfer syntax (none, encapsulated pixel data, data set adapter) write_dataset_impl answers Ok only after a successful flush has followed the written data set, and returns every Err of with_ts / write_sequence / flush.",
  "note": "writers, the synchronous receiver and the file-level data set writer's flush discipline only: the file meta group, the inside of the deflate adapter, the P-DATA writer's finish-on-drop, partial writes and the asynchronous paths are outside; the data set writer is also run with the failing call being a zero-length write",
 },
 "C36": {
  "engine": "M",
  "technique": "symbolic execution of the MIR of Display/FromStr for FullAeAddr<T> and AeAddr<T> at T = String, z3 over symbolic title/address bytes",
  "level": "print->parse identity decided for all titles (no '@') and all addresses (may contain '@') of 1-3 bytes, with and without title.",
  "note": "T = SocketAddr not encoded (std); string contracts trusted and cross-checked natively per run",
 },
})

TEXT.update({
 "C22": {
  "engine": "M",
  "technique": "typed symbolic evaluation of the rustc MIR of the LUT kernels with path merging (one term per function), z3 floating-point and bit-vector theories",
  "level": "Formula equalities are decided for ALL doubles (rescale) and all finite x/center/width/y_max (linear, linear-exact, sigmoid modulo an uninterpreted exp) in one query each; "
           "stored-sample interpretation for bits stored 1-16 and both signednesses over all indices; range and monotonicity over ALL stored values for sampled parameter sets "
           "(the property's own quantifier samples parameters).",
  "note": "IEEE-754 RNE semantics for MIR float ops; table construction loop abstracted as entry i = f(i); VoiLutTransform tables and bits stored 17-32 outside; native cross-check of the encoding on the repo's test vectors",
 },
})

TEXT.update({
 "C24": {
  "engine": "M",
  "technique": "symbolic execution of the MIR of the DICOM JSON element serializer and value wrappers with serde calls as event-recording contracts; z3 decides the Annex F grammar of the event stream per VR",
  "level": "Per VR class (AT, US/SS/UL/SL, LO, PN, OB/UN, empty and zero-item values) the solver shows for ALL symbolic payloads that the recorded serde event stream has the Annex F shape and carries exactly the stored values "
           "(AT: the 8 upper-case hex digits decoded from the real format template). Kani exceeded 24 GB on one element.",
  "note": "object-level key order/format, sequences, FL/FD and 64-bit VRs, serde_json's text layer and the base64 alphabet are outside; each case is cross-checked against the real serde_json text on a solver-chosen input",
 },
})

TEXT.update({
 "C08": {
  "engine": "K",
  "technique": "bounded model checking (Kani/CBMC) of AdaptiveVRLittleEndianDecoder::decode_header against the explicit / implicit decoders on arbitrary header bytes with a solver-chosen dictionary answer",
  "level": "For ALL 24 (explicit) / 16 (implicit) header bytes and every dictionary answer (absent, Exact(any VR), Xs, Ox, Px, Lt) satisfying the statement's unambiguity condition the solver shows the "
           "deciding header is read exactly as the correct decoder reads it; a leading item delimiter does not decide.",
  "note": "headers after the deciding one (locked states) are NOT covered: two decodes through the state machine exceeded 30 GB / 23 min in CBMC; instantiated with a stub dictionary; reader wiring of flexible_decoding outside",
 },
 "C14": {
  "engine": "K+M",
  "technique": "bounded model checking (Kani/CBMC) of Tag::from_str on every valid UTF-8 string of each length 0-12 against an independent recogniser, and of Display for Tag through the real core::fmt into a fixed sink",
  "level": "Parsing is decided for EVERY string of byte length 0, 7-12 (accept exactly the three forms with either hex case, reject all else, never panic); printing and print->parse identity for all 2^32 tags.",
  "note": "selector syntax and dictionary keywords are not encoded (tag half of the property only; keyword side is C15); keyword clause on Engine M: parse_tag resolves every text the dictionary knows as a keyword to the dictionary's tag (texts of 4-9 letters / digits, symbolic), numeric texts to their tag",
 },
 "C18": {
  "engine": "K+M",
  "technique": "Kani/CBMC on the default PixelDataWriter::encode (offset table) and Fragments::new on small data; z3 over the scalar MIR encoding of Fragments::new's length arithmetic (bit-vectors + f32/u64 as in the MIR)",
  "level": "Offset table of the default encode decided for 1-3 frames with all frame sizes 0-6; Fragments::new evenness/padding/concatenation on 8 (length, size) instances with symbolic bytes; the fragment-count arithmetic "
           "decided for all 2^32 fragment sizes and data lengths <= 2^16 plus the window [2^24-8, 2^24+24] (no byte dropped, no panic); the whole range <= 2^26 is beyond z3 (unknown).",
  "note": "frame_pixel_data on objects, From<Vec<Fragments>> and the total-length attribute written by transcode are outside; Vec/iterator calls in Fragments::new are contracts recording lengths",
 },
 "C25": {
  "engine": "K+M",
  "technique": "bounded model checking (Kani/CBMC) of write_pdu -> read_pdu on small PDUs with symbolic fields and of strict prefixes; symbolic execution of the rustc MIR of write_pdu / write_chunk_* with z3 for association PDUs",
  "level": "Round trip, exact framing (length field == bytes that follow, all bytes consumed) and prefix => incomplete for release, unknown-type and one-PDV P-DATA PDUs with all field values symbolic; "
           "item length fields decided on the MIR of write_chunk_u16/u32: Ok is returned only when the written length field equals the content length (all lengths up to 2^20 / 2^33); "
           "A-ASSOCIATE-RQ and -AC: the MIR of write_pdu with all its closures is executed on PDUs of concrete shape (every user sub-item kind incl. role selection, extended negotiation, user identity, unknown; "
           "UID lengths per instance) with symbolic characters and field values, and an independent PS3.8/PS3.7 item walker shows every item length and nested length field tiles its content.",
  "note": "A-ASSOCIATE-RQ/AC read side, A-ABORT/RJ (bytes::Bytes pointer tagging vs CBMC) and strict mode are not covered; tracing stubbed; text codec contract: default repertoire is its own encoding",
 },
 "C26": {
  "engine": "K",
  "technique": "bounded model checking (Kani/CBMC) of PDataWriter::write/finish from every buffer fill level, with an independent PS3.8 reading of the emitted bytes",
  "level": "For max PDU lengths 7/10/12 and two writes of instance-chosen sizes (covering empty, partial, exactly full, overflowing) the solver shows for all payload bytes and context ids: every PDU within the maximum, "
           "one PDV, only the final one marked last, payloads concatenate to the accepted input, and a non-empty write never reports 0 bytes.",
  "note": "needs the cfg(kani) constructor hook; asynchronous writer harnesses and the reader are being added (listed in evidence when present)",
 },
})

TEXT.update({
 "C04": {
  "engine": "M",
  "technique": "symbolic execution of the rustc MIR of DataSetWriter::write, StatefulEncoder and the three uncompressed codecs with z3 deciding each path; the written bytes are read by an independent PS3.5 walker",
  "level": "Per instance of concrete shape and symbolic content: (a) one element through encode_primitive_element - stream == header + value + VR-specific padding byte, header length even and equal to the bytes that follow, "
           "caller-supplied header length ignored, bytes_written == bytes written; (b) token streams through DataSetWriter under both strategies - defined lengths end exactly where they say, undefined ones are closed by the "
           "matching delimiters, fragments padded to even length; (c) DA/TM/DT elements whose values are built by the real constructors from symbolic arguments - length field exact and even, space padding, "
           "the count encode_primitive reports equals the bytes it appended. Every instance is also replayed natively and the real bytes walked.",
  "note": "float values, DS/IS from binary values, non-default character sets, whole files and deflated syntaxes are outside; the earlier Kani harnesses for the writer ran out of memory (30 GB) and were removed",
 },
 "C05": {
  "engine": "K+M",
  "technique": "bounded model checking (Kani/CBMC): Kani's panic / overflow / bounds checks and unwinding assertions on parsers and decoders fed every byte string of the listed sizes; symbolic execution of the MIR of the DICOM JSON element visitor with solver-chosen members",
  "level": "No panic and bounded loops for the DICOM date, time and date-time parsers, the textual tag parser, the explicit header decoders and PDU prefix reading, for ALL inputs of the stated lengths. "
           "DICOM JSON: for every sequence of up to 3 members of a data element object (any order, any combination), no panic call is reachable in the element visitor.",
  "note": "file / collector / the rest of JSON text handling / JPEG / deflate / RLE / dump entry points, range parsers, data set readers on arbitrary streams and text-VR value readers are outside (third-party code or measured beyond budget)",
 },
 "C09": {
  "engine": "M",
  "technique": "symbolic execution of the rustc MIR of FileMetaTable::{update_information_group_length, into_element_iter} and of the element encoder (StatefulEncoder + Explicit VR LE codec) with z3; the written group is walked by an independent PS3.5 parser and counted; symbolic execution of the MIR of <FileMetaTable as ApplyOp>::apply and its helpers followed by the MIR of calculate_information_group_length on the resulting table",
  "level": "For tables of concrete shape (which of the 6 optional attributes are present, length 0..5 of every string, odd and even) with symbolic characters, the recorded File Meta Information Group Length equals the number of "
           "bytes that follow the group length element when every element the table yields is written, and the group parses as Explicit VR LE. Each instance is compared with FileMetaTable::write run natively. Operations: after one attribute operation (9 actions x required / optional string attributes, optional attributes absent or present, symbolic new text) on a table with a correct length, the recorded length equals calculate_information_group_length() of the table as the operation left it, whether it answered Ok or Err (native: apply, write, count).",
  "note": "group length clause (tables built directly and after one attribute operation) only: reading the group back, the builder's defaults and preamble detection are outside; the data set writer's token plumbing between into_element_iter and the encoder is covered by C04, not re-executed here",
 },
 "C12": {
  "engine": "M",
  "technique": "typed symbolic evaluation with path merging of the MIR of <DicomTime as AsRange>::earliest/latest (z3 bit-vectors); symbolic execution of the MIR of the constructors, to_encoded, *_byte_len and the partial parsers "
               "(core::fmt through a template interpreter, chrono's FixedOffset from its MIR) with z3 deciding every path",
  "level": "For every DicomTime its constructors admit (4 precisions, second 0-60, fraction of 1-6 digits) the solver shows earliest()/latest() are Ok and equal the component-wise instant. For every date, time and date-time "
           "value that the constructors return for symbolic arguments (offsets -12:00..+14:00), the text of to_encoded parses back (parse_*_partial) to a structurally equal value with nothing left over, and has the length "
           "the value reports.",
  "note": "date / date-time ranges and the range text A-B are outside; NaiveTime::from_hms_micro_opt is a contract taken from chrono's documentation; models are replayed natively",
 },
 "C16": {
  "engine": "M",
  "technique": "z3 over the MIR of the TransferSyntax capability predicates on a symbolic codec shape; MIR of the registry lookup over keys dumped from the real registry with symbolic padding bytes",
  "level": "Seven capability equivalences decided for every codec shape; for the registry as built (default and native+deflate features): unique UIDs, implicit/big-endian exactly for the two standard UIDs, decoder+encoder when decodable, "
           "queries agreeing with codecs, and lookup with 0-2 trailing space/NUL bytes returning the same entry.",
  "note": "registry contents come from the real registry through the public API (native oracle); feature sets needing system libraries are outside",
 },
 "C21": {
  "engine": "K",
  "technique": "bounded model checking (Kani/CBMC) of the default method PixelDataObject::frame_pixel_data on harness objects with symbolic geometry and pixel bytes",
  "level": "Frame k is exactly the bytes of frame k for native 8/16-bit data (rows, columns 1-4 symbolic), for 1-bit data with ANY pixel count (rows, columns 1-17: the bytes holding bits [k*n,(k+1)*n)), and for encapsulated data with an offset table.",
  "note": "decode_pixel_data / decode_pixel_data_frame (1-bit expansion) are not a callable unit without the registry and file object: outside, and read as defective for pixel counts not divisible by 8 (DESIGN §2 C21)",
 },
 "C27": {
  "engine": "M",
  "technique": "symbolic execution of the rustc MIR of read_pdu_from_wire and read_pdu over a transport whose read sizes are solver-chosen; z3 decides every path; replay with a chunking reader against the real receiver",
  "level": "For streams of 2-3 small PDUs (release request / reply, abort, one-PDV P-DATA with symbolic context id, flags and payload) handed out in up to 3 (thorough: 4) reads at every possible split point - including all PDUs in one read "
           "and a PDU split across reads - successive receives return exactly the PDUs sent, in order, the receive buffer ends empty and nothing is read twice.",
  "note": "synchronous receiver only (the asynchronous one is not encoded); BufReader / BytesMut / Cursor / bytes::Buf accessors are contracts over byte lists; association PDUs with variable items are not in the streams",
 },
 "C28": {
  "engine": "M",
  "technique": "symbolic execution of the rustc MIR of the acceptor's process_a_association_rq, its per-context negotiation closure, choose_ts, choose_supported and trim_uid; proposal and configuration are solver-chosen from a small universe of UIDs; z3 decides every path; replay against a real acceptor over loopback",
  "level": "For one proposed presentation context (abstract syntax among 4 texts incl. NUL-padded; 0..2 transfer syntaxes among 4 texts incl. a padded and an unknown one) and every acceptor configuration over 2 abstract syntaxes, "
           "3 transfer syntaxes and the promiscuous flag: the result carries the same identifier, is accepted exactly when the rules say so, with the first configured-and-supported proposed transfer syntax, else with the reason naming the failing condition. "
           "Whole request (MIR of process_a_association_rq): another protocol version, another application context name or refused access give an A-ASSOCIATE-RJ with the matching reason (in that order); otherwise one result per proposed context "
           "with the same identifier in order, and the requestor's maximum PDU length is 0 -> largest supported, absent -> default, else min(value, largest).",
  "note": "is_supported, access control and the negotiation callbacks are contracts (the registry is C16's subject); at most 2 contexts and 2 user items per request; counterexamples are replayed against a real acceptor over loopback",
 },
 "C29": {
  "engine": "M",
  "technique": "typed symbolic evaluation of the MIR of create_a_associate_req (unknown callees havocked) and of its identifier closure, and symbolic execution of the MIR of encode_pdu/write_pdu; z3 queries over the number of contexts, two positions and the peer maximum; replay over a loopback socket",
  "level": "For every number of proposed contexts that the requestor's own guards let through, identifiers are odd and pairwise distinct. Send-size limit: the MIR of encode_pdu and write_pdu is executed on "
           "P-DATA-TF PDUs of concrete shape with a symbolic peer maximum; the solver shows Ok is returned exactly when the encoded PDU (6 + sum(6 + payload)) is no longer than the maximum.",
  "note": "identifier and send-size clauses of C29 only (agreement of both sides on contexts and lengths is not encoded); havoc mode over-approximates, counterexamples are confirmed against a real requestor / a real loopback association before being reported",
 },
})

TEXT.update({
 "C31": {
  "engine": "M",
  "technique": "symbolic execution of the MIR of InMemDicomObject::command_from_iter_with_dict (+closure, even_len) over abstract elements with symbolic tags, value lengths and independently symbolic declared header lengths; BTreeMap as a finite map with symbolic keys; z3",
  "level": "For 2-3 elements with symbolic tags (which may coincide, in or outside group 0000) and symbolic value lengths (the length declared in each element's header is a separate, unconstrained symbol, as DataElement::new_with_len allows) the solver shows on every path that the recorded Command Group Length equals 8 + even(length) summed over the OTHER "
           "command elements that remain in the set.",
  "note": "that calculate_byte_len equals the bytes the encoder writes per VR is not part of this check; counterexamples are replayed by writing the real command set in Implicit VR LE and counting bytes",
 },
})

NOT_APPLICABLE = {
 "C01": "write->read round trip needs DataSetReader over the real StatefulDecoder in the same harness as the writer; text/date value readers exceed 8 GB in CBMC (measured under C07) and the writer->reader harness was at 10 GB after 6 min; writer side is claimed under C04, headers under C03, numeric value readers under C07; the composition is not claimed",
 "C02": "same kernels as C01 (reader + writer in one harness beyond CBMC's reach here); the keep-lengths writer strategy on reference-encoded shapes is part of C04",
 "C06": "lazy vs eager reader comparison needs two full readers over the real StatefulDecoder per harness; the collector needs BufReader + global registry + dictionary; beyond both engines as built",
 "C10": "the codecs are the third-party `encoding` crate behind trait objects (one symbolic character: no verdict in 900 s on Kani; not MIR of the repository); the term<->set wiring is a finite concrete table with no quantifier for a solver",
 "C19": "lossless transcoding goes through the global registry, a file object and image codecs (flate2, jpeg): no unit within reach; UncompressedAdapter composition not built",
 "C20": "RLE decode_frame on 2 pixels had no verdict in 900 s on Kani (Vec::resize, Cursor, io::copy, read_to_end); the Engine M vocabulary for these was not built",
 "C23": "serde_json::Value deserialisation (maps, strings of data-dependent length) exceeded 24 GB in SAT on Kani for one element; the serialiser is decided under C24 and the element visitor's member handling (no panic) under C05 on Engine M, but joining them needs serde_json::from_value over real JSON values, which is outside the interpreter's vocabulary: the round trip is not claimed",
 "C30": "release/abort conformance needs associations over a harness stream (hook) and a symbolic peer; not built; true two-peer interleavings are outside both engines",
 "C32": "file-system effect of a bin crate's TCP loop (sockets, threads, global registry, write_to_file); no callable unit to execute symbolically, Kani has no file-system model",
 "C33": "behaviour of the storescu binary over sockets with image transcoding; not encodable within reach of Kani or the MIR interpreter",
 "C35": "two binaries around the image crate's PNG codec and file I/O; third-party loops over whole files, no unit to encode",
}
