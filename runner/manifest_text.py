"""Texts for MANIFEST.json (per claimed property) and reasons for unclaimed ones."""
HOOK_COMMITS = []

TEXT = {
 "C03": {
  "engine": "K",
  "technique": "bounded model checking (Kani/CBMC, SAT) of the real header encoders/decoders against a PS3.5 layout oracle, full-width symbolic tag/VR/length",
  "level": "Solver verdict over ALL tags, all 34 VRs, all 2^32 lengths and all 65 536 VR codes for the three codecs' header/item encoders and decoders "
           "(decoders also on 12 arbitrary bytes); loop-free code, so the unwind bound cuts nothing (unwinding assertions pass). This is the whole "
           "quantifier of the statement, which tests only sample.",
  "note": "trusted: kani-compiler lowering, CBMC/cadical, the layout oracle in kani/enc/src/c03.rs, inert-backtrace snafu build; implicit-VR decoder instantiated with a stub dictionary",
 },
}

_NOTYET = "check not built yet in this session (design in DESIGN.md §3); not claimed until its harness has produced a verdict"
NOT_APPLICABLE = {p: _NOTYET for p in ["C%02d" % i for i in range(1, 37)]}
NOT_APPLICABLE.update({
 "C32": "file-system effect of a bin crate's TCP loop (sockets, threads, global registry, write_to_file); no callable unit to execute symbolically, Kani has no file-system model",
 "C33": "behaviour of the storescu binary over sockets with image transcoding; not encodable within reach of Kani or the MIR interpreter",
 "C35": "two binaries around the image crate's PNG codec and file I/O; third-party loops over whole files, no unit to encode",
})
