#!/usr/bin/env python3
"""Regenerates MANIFEST.json from runner/specs.py + runner/manifest_text.py (kept valid at all times)."""
import json, os, sys
sys.path.insert(0, os.path.dirname(os.path.abspath(__file__)))
from specs import SPECS
from manifest_text import TEXT, NOT_APPLICABLE, HOOK_COMMITS

props = [json.loads(l)["id"] for l in open(os.path.join(os.path.dirname(__file__), "..", "properties.jsonl"))]
checks = []
for pid in props:
    if pid not in SPECS:
        continue
    t = TEXT[pid]
    checks.append({
        "property_id": pid,
        "quick_cmd": "./check %s --tier quick" % pid,
        "thorough_cmd": "./check %s --tier thorough" % pid,
        "evidence_file": "/verif/evidence/%s.json" % pid,
        "replay_cmd_template": "./check %s --replay {path}" % pid,
        "engine": t["engine"],
        "level_claimed": {"category": "model_checking", "text": t["level"], "design_ref": "DESIGN.md §3 " + pid},
        "level_note": t["note"],
        "technique": t["technique"],
    })
na = [{"property_id": p, "reason": NOT_APPLICABLE[p]} for p in props if p not in SPECS]
missing = [p for p in props if p not in SPECS and p not in NOT_APPLICABLE]
assert not missing, missing
m = {
    "version": 1,
    "setup_cmd": "./setup.sh",
    "hooks": {
        "guard": "cfg(kani)",
        "enable": "set only by kani-compiler when the harness crates under /verif/kani are built with `cargo kani` (path dependencies on /repo); no cargo feature or RUSTFLAGS needed",
        "baseline_off_cmd": "cd /repo && cargo test --workspace --no-fail-fast --offline",
        "source_commits": HOOK_COMMITS,
        "add_only": True,
    },
    "engines": [
        {"name": "K", "path": "/verif/kani", "kind_free_text": "Kani 0.68 / CBMC 6.11 bounded model checking of the compiled crates; harness crates with path deps on /repo, driven per harness by runner/kani.py",
         "serves_properties": [c["property_id"] for c in checks if "K" in c["engine"]]},
        {"name": "M", "path": "/verif/enginem", "kind_free_text": "symbolic interpreter of rustc MIR (nightly -Zunpretty=mir of the current tree) emitting z3 queries, cross-checked natively",
         "serves_properties": [c["property_id"] for c in checks if "M" in c["engine"]]},
    ],
    "checks": checks,
    "not_applicable": na,
    "notes": "exit codes: 0 held within the stated bounds; 1 + VIOLATION line after native replay; 2 inconclusive (timeout, memory cap, "
             "unwinding assertion, unreached cover point, non-reproducing model). Bounds and what lies outside them are in each evidence file and in DESIGN.md §3.",
}
json.dump(m, open(os.path.join(os.path.dirname(__file__), "..", "MANIFEST.json"), "w"), indent=1)
print("checks:", len(checks), "not_applicable:", len(na))
